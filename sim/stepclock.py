"""Deterministic step clock: the only 'time' the code under test is measured on.

Counts interpreter events (backward/forward JUMPs and Python function starts)
with sys.monitoring.  When the budget is exceeded the callback raises
StepBudgetExceeded (a BaseException) inside the running code, which unwinds
any Python-level infinite loop.  Step counts are a pure function of the code
and the input, so a time-out replays exactly.
"""
from __future__ import annotations

import sys
from typing import Any


class StepBudgetExceeded(BaseException):
    pass


class StepClock:
    TOOL_ID = 3  # sys.monitoring tool slot (0..5); 3 is unused by stdlib tools

    def __init__(self, budget: int | None = None) -> None:
        self.budget = budget
        self.steps = 0
        self.tripped = False
        self._active = False

    def _tick(self, *args: Any) -> None:
        self.steps += 1
        budget = self.budget
        if budget is not None and self.steps > budget:
            # raise at the first step past the budget, then again every 1000
            # steps (so code that swallows BaseException still gets unwound);
            # the harness disarms by setting budget = None before stop().
            if (self.steps - budget) % 1000 == 1:
                self.tripped = True
                raise StepBudgetExceeded(f"step budget {budget} exceeded")

    def start(self) -> None:
        mon = sys.monitoring
        try:
            mon.use_tool_id(self.TOOL_ID, "a816-verif-stepclock")
        except ValueError:
            mon.free_tool_id(self.TOOL_ID)
            mon.use_tool_id(self.TOOL_ID, "a816-verif-stepclock")
        ev = mon.events
        mon.register_callback(self.TOOL_ID, ev.JUMP, self._tick)
        mon.register_callback(self.TOOL_ID, ev.PY_START, self._tick)
        self._active = True
        mon.set_events(self.TOOL_ID, ev.JUMP | ev.PY_START)

    def stop(self) -> None:
        self.budget = None
        mon = sys.monitoring
        mon.set_events(self.TOOL_ID, 0)
        mon.register_callback(self.TOOL_ID, mon.events.JUMP, None)
        mon.register_callback(self.TOOL_ID, mon.events.PY_START, None)
        mon.free_tool_id(self.TOOL_ID)
        self._active = False


def run_clocked(fn: Any, budget: int | None) -> tuple[Any, BaseException | None, int, bool]:
    """Run fn() under the step clock.

    Returns (value, exception, steps, timed_out).  The few harness steps
    between start() and fn() are the same on every run, so counts replay.
    """
    clock = StepClock(budget)
    value = None
    exc: BaseException | None = None
    clock.start()
    try:
        value = fn()
    except BaseException as e:  # noqa: BLE001 - everything is an outcome here
        clock.budget = None
        exc = e
    finally:
        clock.budget = None
        clock.stop()
    timed_out = clock.tripped
    return value, exc, clock.steps, timed_out
