"""C14 - a failed assembly is never reported as success.

For each generated base program: every definite source-error class at every
statement slot where it is an error by construction, every I/O crash point of
every file entry point (learned from the fault-free run's event log), and a
user Writer failing at every block - through all five entry points.

  bad  = an error statement was inserted  v  an injected fault fired
         v  the pristine in-memory twin of the same source failed
  bad  => no success status, no success announcement
  !bad => success status AND the output equals the twin's image
"""
from __future__ import annotations

import random
from typing import Any, Iterator

from .. import core, entries, ipsref, progen
from ..runner import Stats, Violation
from ..runner import should_stop as runner_should_stop

PROP = "C14"
LEVEL = "fault_enumeration"
RULE = (
    "base programs from sim.progen (valid by construction, twin-checked); per base program: each definite error class x each "
    "slot where it is an error by construction (one seeded entry point per pair) plus the full error-class x entry-point "
    "product at a seeded slot; every raw open/read/write/close of the fault-free run of each file entry point as a crash point "
    "(complete enumeration per run); user Writer failing at each block. Non-trivial = an error statement was present or a "
    "fault actually fired; distinct = (entry point, error class or fault op/role/errno, slot context kind or op-index class, "
    "format, mapping)."
)
ASSUMPTIONS = [
    "an exception escaping an entry point counts as a failure report (for the CLI: uncaught exception = exit status 1)",
    "a success announcement is a log record below WARNING, or stdout text, containing the word 'success'",
    "close() failures are injected on output files only (a failed close of a file opened for reading is not a definite fault)",
    "the in-memory API run in a pristine fork is the reference for 'every statement was assembled and written'",
]
REQUIRED_REACH = [
    "fault_fired:writer_block",
    "probe:error_in_macro_body",
    "probe:error_in_included_file",
    "probe:fault_after_first_output_write",
    "probe:clean_run_output_compared",
    "probe:execution_repeated_in_same_process",
    "probe:derived_failure_after_valid_original_in_same_process",
    "probe:derived_failure_alone",
    "probe:error_under_deep_nesting",
    "probe:failing_source_with_unusual_format_value",
    "probe:run_in_fresh_interpreter_with_flags:-O",
]

ENTRIES = ("string", "with_emitter", "assemble", "patch", "cli")
SLOTS_PER_CLASS = int(__import__("os").environ.get("VERIF_C14_SLOTS", "6"))
FILE_ENTRIES = ("with_emitter", "assemble", "patch", "cli")

# ---------------------------------------------------------------------------
# definite source errors (fault kind D6).  scope: "parse" = error wherever the
# text is scanned/parsed; "asm" = error only where statements are assembled.

ERROR_CLASSES: dict[str, dict[str, Any]] = {
    "invalid_char": {"scope": "parse", "text": "?"},
    "unterminated_string": {"scope": "parse", "text": ".ascii 'abc"},
    # a NUL character is a character like any other: not the end of the input
    "nul_at_statement_level": {"scope": "parse", "text": "\x00"},
    "error_after_nul_in_comment": {"scope": "asm", "text": "; note \x00 more\nlda.w undefined_after_nul_zq"},
    "bad_size_suffix": {"scope": "parse", "text": "lda.q #1"},
    "bad_index_register": {"scope": "parse", "text": "lda 0x10,z"},
    "unknown_keyword": {"scope": "parse", "text": ".frobnicate 1"},
    "unclosed_brace": {"scope": "parse", "text": "{"},
    "sharp_at_end_of_input": {"scope": "parse", "text": "lda #", "last_only": True},
    "missing_include": {"scope": "parse", "text": ".include 'missing_zq.s'"},
    # a final statement that stops where an expression is expected (what a truncated file ends with)
    "truncated_operand_at_end": {"scope": "parse", "text": "lda.w", "last_only": True},
    "truncated_paren_operand_at_end": {"scope": "parse", "text": "lda (", "last_only": True},
    "truncated_data_list_at_end": {"scope": "parse", "text": ".dw 0x1234,", "last_only": True},
    "truncated_binary_expression_at_end": {"scope": "parse", "text": "total_zq = 0x10 +", "last_only": True},
    "truncated_position_at_end": {"scope": "parse", "text": "*=", "last_only": True},
    "truncated_macro_arguments_at_end": {"scope": "parse", "text": "trunc_zq(1,", "last_only": True},
    "unterminated_comment": {"scope": "parse", "text": "/* never closed", "last_only": True},
    "unclosed_paren": {"scope": "parse", "text": "lda (0x10"},
    "unclosed_bracket": {"scope": "parse", "text": "lda [0x10"},
    "unclosed_macro": {"scope": "parse", "text": ".macro unclosed_zq(a_zq) {"},
    "bad_map_attribute": {"scope": "parse", "text": ".map frob_zq=1"},
    "if_without_block": {"scope": "parse", "text": ".if 1 ; no block follows"},
    "for_without_bound": {"scope": "parse", "text": ".for i_zq := 0 {\n}"},
    "stray_closing_brace": {"scope": "parse", "text": "}", "top_only": True},
    # keywords that only make sense as part of another statement, at statement position
    # (preceded by a statement of their own: right after an .if block an .else would be legitimate)
    "bare_else": {"scope": "parse", "text": "inx\n.else"},
    "dangling_else_block": {"scope": "parse", "text": "inx\n.else {\n    nop\n}"},
    "else_after_comment": {"scope": "parse", "text": ".if 1 {\n    nop\n}\n; a comment in between\n.else {\n    inx\n}"},
    "else_after_for": {"scope": "parse", "text": ".for q_zq := 0, 1 {\n    nop\n}\n.else {\n    inx\n}"},
    "two_else_blocks": {"scope": "parse", "text": ".if 0 {\n    nop\n} else {\n    inx\n} else {\n    iny\n}"},
    "stray_istruct": {"scope": "parse", "text": ".istruct thing_zq"},
    "undefined_scope_member": {"scope": "asm", "text": ".dl nosuch_zq.member_zq"},
    # the scope exists, the name exists outside it, but it is not a member of the scope
    "outer_symbol_through_scope": {"scope": "asm", "text": "outer_zq = 4\n.scope sc_zq {\n    in_zq:\n    .db 1\n}\n.dw sc_zq.outer_zq", "top_only": True},
    "outer_label_through_scope": {"scope": "asm", "text": "outl_zq:\n.scope sd_zq {\n    ind_zq:\n    .db 1\n}\n.dl sd_zq.outl_zq", "top_only": True},
    # a definition nobody reads still has to be evaluated: its undefined right-hand side is an error
    "undefined_in_unused_definition": {"scope": "asm", "text": "spare_zq = undefined_zq + 1"},
    "undefined_macro_argument_unused": {"scope": "asm", "text": ".macro ign_zq(a_zq) {\n    .db 1\n}\nign_zq(undefined_zq)"},
    # the name exists in the program, but in a scope that is closed / not visible at the reference
    "label_local_to_closed_block": {"scope": "asm", "text": "{\n    inner_zq:\n    .db 1\n}\n.dl inner_zq"},
    "symbol_local_to_closed_block": {"scope": "asm", "text": "{\n    innersym_zq = 5\n    .db 1\n}\n.db innersym_zq"},
    "unused_definition_from_closed_block_label": {"scope": "asm", "text": "{\n    innerb_zq:\n    .db 1\n}\nspareb_zq = innerb_zq + 1"},
    "label_local_to_for_body": {"scope": "asm", "text": ".for k_zq := 0, 1 {\n    inf_zq:\n    .db 1\n}\njmp.w inf_zq"},
    "label_local_to_macro_body": {"scope": "asm", "text": ".macro lm_zq() {\n    inm_zq:\n    .db 1\n}\nlm_zq()\n.dw inm_zq", "top_only": True},
    "bare_name_of_scoped_label": {"scope": "asm", "text": ".scope se_zq {\n    ins_zq:\n    .db 1\n}\n.dl ins_zq", "top_only": True},
    "undefined_in_assign": {"scope": "asm", "text": "assign_zq := undefined_zq + 1"},
    "undefined_in_for_bound": {"scope": "asm", "text": ".for i_zq := 0, undefined_zq {\n    nop\n}"},
    "undefined_ips_delta": {"scope": "asm", "text": ".include_ips 'missing_zq.ips', undefined_zq"},
    "undefined_code_lookup": {"scope": "asm", "text": "{{ undefined_zq }}"},
    "undefined_macro_argument": {"scope": "asm", "text": ".macro one_zq(a_zq) {\n    .dw a_zq\n}\none_zq(undefined_zq)"},
    "undefined_symbol_operand": {"scope": "asm", "text": "lda.w undefined_zq"},
    "undefined_symbol_data": {"scope": "asm", "text": ".dw undefined_zq + 1"},
    "undefined_symbol_position": {"scope": "asm", "text": "*=undefined_zq"},
    "undefined_macro": {"scope": "asm", "text": "undefined_macro_zq(1)"},
    "too_few_macro_args": {"scope": "asm", "text": ".macro two_zq(a_zq, b_zq) {\n    .db a_zq, b_zq\n}\ntwo_zq(1)"},
    # one macro body, applied first with an operand the opcode can encode and then with one it cannot
    "macro_operand_too_wide_on_second_application": {"scope": "asm", "text": ".macro ldi_zq(v_zq) {\n    ldx v_zq\n}\nldi_zq(0x12)\nldi_zq(0x123456)"},
    "macro_immediate_too_wide_on_second_application": {"scope": "asm", "text": ".macro ldm_zq(w_zq) {\n    lda #w_zq\n    .db w_zq\n}\nldm_zq(0x12)\nldm_zq(0x1234)\nldm_zq(0x123456)"},
    # an operand after an instruction that takes none (the accumulator spelling 'a' is only meaningful
    # after asl/lsr/rol/ror/inc/dec, and this assembler does not have it at all)
    "operand_after_implied_opcode": {"scope": "asm", "text": "rts a"},
    "operand_after_implied_opcode_upper": {"scope": "asm", "text": "clc A ; carry"},
    "number_after_implied_opcode": {"scope": "asm", "text": "pha 0x10"},
    "unsupported_addressing_mode": {"scope": "asm", "text": "nop #0"},
    "index_after_immediate": {"scope": "asm", "text": "lda #0x10,x"},
    "index_after_immediate_y": {"scope": "asm", "text": "cpx #0x02,y"},
    "index_on_long_indirect_x": {"scope": "asm", "text": "lda [0x10],x"},
    "unsupported_width_imm": {"scope": "asm", "text": "lda.l #0x123456"},
    # no size suffix: the operand's own width has no encoding in this addressing mode
    "unsuffixed_operand_too_wide": {"scope": "asm", "text": "ldx 0x123456"},
    "unsuffixed_immediate_too_wide": {"scope": "asm", "text": "lda #0x123456"},
    "unsupported_width_jmp": {"scope": "asm", "text": "jmp.b 0x12"},
    "branch_out_of_range": {"scope": "asm", "text": "bra far_zq\n.dw " + ", ".join(["0"] * 100) + "\nfar_zq:"},
    # exactly one byte beyond the reach of an 8-bit displacement, in each direction
    "branch_plus_128": {"scope": "asm", "text": "bra edge_zq\n.dw " + ", ".join(["0"] * 64) + "\nedge_zq:"},
    "branch_minus_129": {"scope": "asm", "text": "edgeb_zq:\n.dw " + ", ".join(["0"] * 63) + "\n.db 0\nbne edgeb_zq"},
    # a short branch whose target is exactly 64 KiB further in the ROM image (another section)
    "branch_64k_away": {"scope": "asm", "text": "*=$B64A\nbra far64_zq\n*=$B64B\nfar64_zq:\nnop", "top_only": True},
    "unmapped_bank": {"scope": "asm", "text": "*=$UNMAPPED"},
    # the 65c816 bus is 24 bits wide: an address above it is not mapped, whatever its low 24 bits are
    "address_beyond_24_bits": {"scope": "asm", "text": "*=0x1008000\n.db 1"},
    # code that runs off the end of the last mapped ROM bank into an unmapped bank
    "run_off_mapped_rom": {"scope": "asm", "text": "*=$ROMEND\n.dl 0x111111, 0x222222"},
    # errors that only surface when the statement is emitted, in a block positioned in RAM (no ROM offset)
    "emit_time_error_in_ram_positioned_block": {"scope": "asm", "text": "*=0x7e2000\nlda.w #undefined_in_ram_zq", "top_only": True},
    "width_error_in_ram_positioned_block": {"scope": "asm", "text": "*=0x7e4000\nnop\nlda.l #0x12", "top_only": True},
    # many failing statements at once (what forgetting the .include that holds every definition looks like):
    # however failures are counted, the count must not turn into a zero status
    "failing_statements_256": {"scope": "asm", "text": "\n".join(f"lda.w missing_{i}_zq" for i in range(256))},
    "failing_statements_512": {"scope": "asm", "text": "\n".join(f".dw nothere_{i}_zq" for i in range(512))},
    "undefined_inside_nested_expression": {"scope": "asm", "text": ".dw -(2 + undefined_zq) * 3"},
    # Evaluations that abort half-way on the current tree.  Whether these *ought* to be errors is not
    # something C14 states (comparison operators are lexed; a tree that evaluated them would still hold
    # the property), so C14 does not judge them: they only serve as history / probe content for C19.
    "comparison_in_data_expression": {"scope": "asm", "text": ".db -1 > 0", "c19_only": True},
    "comparison_with_pending_operator": {"scope": "asm", "text": ".dw 1 + 2 == 3", "c19_only": True},
    "comparison_in_operand": {"scope": "asm", "text": "lda.w #1 + 2 < 3", "c19_only": True},
    "negative_shift_count": {"scope": "asm", "text": ".db 1 << -1", "c19_only": True},
    "missing_incbin": {"scope": "asm", "text": ".incbin 'missing_zq.bin'"},
    "missing_table": {"scope": "asm", "text": ".table 'missing_zq.tbl'"},
    "missing_ips": {"scope": "asm", "text": ".include_ips 'missing_zq.ips', 0"},
}


ROM_END = {"low": 0x6FFFFC, "low2": 0xFFFFFC, "high": 0xFFFFFC}
B64 = {"low": (0x208000, 0x228000), "low2": (0xA08000, 0xA28000), "high": (0x500000, 0x510000)}  # 64 KiB apart in the file


# every bank at an edge of an unmapped range of the default mappings (low2 leaves no bank unmapped)
UNMAPPED_BANKS = {"low": [0x70, 0x72, 0x7D, 0xD0, 0xE0, 0xEF, 0xF0, 0xFF], "high": [0x00, 0x20, 0x3F, 0x80, 0xA0, 0xBF]}


def error_node(klass: str, prog: progen.Prog, addr: int | None = None) -> progen.Node:
    unmapped = addr if addr is not None else prog.unmapped_addr
    text = ERROR_CLASSES[klass]["text"].replace("$UNMAPPED", hex(unmapped)).replace("$ROMEND", hex(ROM_END.get(prog.mapping, 0)))
    b64 = B64.get(prog.mapping, (0, 0))
    text = text.replace("$B64A", hex(b64[0])).replace("$B64B", hex(b64[1]))
    return {"k": "error", "t": text}


def applicable(klass: str, slot: dict[str, Any]) -> bool:
    spec = ERROR_CLASSES[klass]
    if spec.get("last_only") and not slot["last"]:
        return False
    if spec["scope"] == "asm" and not slot["assembled"]:
        return False
    if spec.get("top_only") and slot["ctx"] not in ("top", "included_file"):
        return False
    if klass in ("too_few_macro_args", "undefined_macro_argument", "undefined_macro_argument_unused", "macro_operand_too_wide_on_second_application", "macro_immediate_too_wide_on_second_application") and slot["ctx"] not in ("top", "included_file"):
        # keep the helper macro definition at file level
        return False
    return True


# ---------------------------------------------------------------------------
# case generation


def gen_case(cseed: int, tier: str) -> dict[str, Any]:
    w = core.substream(cseed, "workload")
    mapping = w.choice(["low", "low", "high", "high", "low2"])
    feats = {x for x in progen.ALL_FEATURES if w.random() < 0.5}
    feats.add("data")
    if w.random() < 0.7:
        feats.discard("map")
    feats.discard("far_banks")
    if w.random() < 0.06 and "map" not in feats:
        feats.add("big_incbin")
    defines: list[tuple[str, str]] = []
    if "defines" in feats:
        defines = [("DEF0", w.choice(["0x12", "7", "0b101"])), ("DEF1", w.choice(["0", "1"])), ("DEF2", w.choice(["1", "2", "3"]))][: w.randrange(1, 4)]
    prog = progen.gen_program(w, mapping, feats, defines, size=w.choice([6, 10, 14]) if w.random() < 0.95 else 70)
    padded = w.random() < (0.03 if tier == "quick" else 0.08)
    if padded:
        # a source of more than 64 KiB / 128 KiB: comment lines (with multi-byte characters) right after the
        # first statement; whatever reads the file in pieces must still see the statements after them
        line = "; padding " + "\u00e9" * 20 + " " + "x" * 60
        n = w.choice([700, 1400, 2100])
        prog.root.insert(1, {"k": "comment", "t": "\n".join([line] * n), "keep": True})
    return {"type": "base", "prog": prog.to_record(), "seed": cseed, "copier": w.random() < 0.5, "cli_format": w.choice(["ips", "ips", "sfc"]), "tier": tier, "padded": padded}


def plan(tier: str) -> dict[str, Any]:
    # the interpreter's own settings are environment too: every error class once in a fresh interpreter
    # started with -O (asserts stripped, __debug__ false) for two fixed base programs
    fixed = [dict(gen_case(core.case_seed(0xC14, "C14", f"opt{i}"), tier), only_interpreter_flags=["-O"]) for i in range(2 if tier == "quick" else 8)]
    return {"fixed": fixed, "seeded": 20 if tier == "quick" else 0, "chunk": 1, "wall_cap_s": 240, "minimise_s": 30}


def entry_spec(entry: str, prog: progen.Prog, copier: bool, cli_format: str) -> dict[str, Any]:
    defines = [list(d) for d in prog.defines]
    mapping = prog.mapping
    spec: dict[str, Any] = {"entry": entry, "src": "main.s", "defines": defines}
    if entry in ("string", "with_emitter"):
        spec["rom"] = mapping
    elif entry == "assemble":
        spec["rom"] = mapping
        spec["out"] = "out.sfc"
    elif entry == "patch":
        spec["mapping"] = mapping
        spec["copier"] = copier
        spec["out"] = "out.ips"
    else:
        spec["format"] = cli_format
        spec["mapping"] = mapping
        spec["copier"] = copier and cli_format == "ips"
        spec["out"] = "out.ips" if cli_format == "ips" else "out.sfc"
        spec["dump_symbols"] = bool(len(defines) % 2)
    return spec


def out_roles(roles: dict[str, str]) -> dict[str, str]:
    r = dict(roles)
    r["out.ips"] = "out_ips"
    r["out.sfc"] = "out_sfc"
    return r


# ---------------------------------------------------------------------------
# twin (reference): the same source through the in-memory API in a pristine fork

_TWIN_CACHE: dict[str, dict[str, Any]] = {}


def twin_of(files: dict[str, bytes], roles: dict[str, str], mapping: str, defines: list[Any]) -> dict[str, Any]:
    key = core.digest([files, mapping, defines])
    t = _TWIN_CACHE.get(key)
    if t is None:
        spec = {"entry": "string", "src": "main.s", "rom": mapping, "defines": defines}
        t = entries.execute_one(files, roles, spec)
        if len(_TWIN_CACHE) > 64:
            _TWIN_CACHE.clear()
        _TWIN_CACHE[key] = t
    return t


# ---------------------------------------------------------------------------
# one execution + verdict


ODD_FORMATS = ["sfc", "SFC", "smc", "bin", "IPS", "Ips", ""]  # the unchanged tree writes an SFC image for anything but "ips"


def build_files(case: dict[str, Any]) -> tuple[progen.Prog, dict[str, bytes], dict[str, str]]:
    prog = progen.Prog.from_record(case["prog"])
    ins = case.get("insert")
    if ins is not None:
        node = error_node(ins["class"], prog, ins.get("addr"))
        if ins.get("nest"):
            # the same error at the bottom of many nested blocks
            n = int(ins["nest"])
            node = {"k": "error", "t": "{\n" * n + node["t"] + "\n" + "}\n" * n}
        prog = progen.insert_at(prog, ins["slot"], node)
    return prog, prog.all_files(), out_roles(prog.all_roles())


def output_image(outcome: dict[str, Any], spec: dict[str, Any]) -> tuple[ipsref.Image | None, str]:
    entry = spec["entry"]
    if entry in ("string", "with_emitter"):
        return ipsref.image_of_blocks(outcome["blocks"]), "blocks"
    data = entries.get_out(outcome, spec["out"])
    if data is None:
        return None, "output file missing"
    if spec["out"].endswith(".ips"):
        try:
            recs = ipsref.parse(data)
        except ipsref.IpsFormatError as e:
            return None, f"output is not a well-formed IPS file: {e}"
        return ipsref.apply_records(recs, None, -0x200 if spec.get("copier") else 0), "ips"
    return ipsref.image_of_flat(data), "sfc"


def run_single(case: dict[str, Any], stats: Stats) -> list[Violation]:
    if case.get("insert") is not None:
        f0 = case["insert"]["slot"]["file"]
        base_prog = progen.Prog.from_record(case["prog"])
        sl = case["insert"]["slot"]
        now = [x for x in progen.iter_slots(base_prog) if x["file"] == sl["file"] and [tuple(y) for y in x["path"]] == [tuple(y) for y in sl["path"]] and x["pos"] == sl["pos"]]
        if ERROR_CLASSES[case["insert"]["class"]]["scope"] == "asm" and (not now or not now[0]["assembled"]):
            # the statement sits where nothing is assembled any more (e.g. in a macro only an included file
            # applied, and the '.include' is gone): an old replay file written by a minimiser step
            stats.bump("no_verdict(inserted statement unreachable)")
            return []
        if f0 != "main.s" and f0 not in progen.live_includes(base_prog):
            # the file holding the inserted statement is not included any more (an old replay file written
            # by a minimiser step that dropped the '.include'): the statement is never assembled
            stats.bump("no_verdict(inserted statement unreachable)")
            return []
    prog, files, roles = build_files(case)
    spec = dict(case["spec"])
    if case.get("writer_fail_at") is not None:
        spec["writer_fail_at"] = case["writer_fail_at"]
    knobs = case.get("knobs") or {}
    faults = case.get("faults") or []
    inserted = case.get("insert") is not None
    if inserted and spec["entry"] == "cli" and case.get("odd_format") is not None:
        # a failing source with an unusual -f value: whatever the tool makes of the value (another writer,
        # a usage error), the failure of the source must not turn into exit status 0.  Only used with
        # failing sources: nothing is demanded of what such a value produces for a valid one.
        spec["format"] = ODD_FORMATS[case["odd_format"] % len(ODD_FORMATS)]
        spec["copier"] = False
        stats.bump("probe:failing_source_with_unusual_format_value")
    if case.get("repeat"):
        # the same execution twice in one process: the second attempt must be judged like the first
        # (state left behind by a failed attempt must not turn the next one into a "success")
        op = {"op": "exec", "spec": spec, "knobs": knobs, "faults": faults}
        first, o = entries.execute(files, roles, [op, op])
        stats.add_outcome(first)
        stats.bump("probe:execution_repeated_in_same_process")
    elif case.get("pyflags"):
        o = entries.run_fresh(files, roles, spec, "0", list(case["pyflags"]))
        stats.bump("probe:run_in_fresh_interpreter_with_flags:" + "".join(case["pyflags"]))
    else:
        o = entries.execute_one(files, roles, spec, knobs, faults)
    stats.add_outcome(o)
    fired = bool(o["fired"]) or bool(o.get("writer_fired"))
    entry = spec["entry"]
    what = "clean"
    rep = " (second attempt in the same process)" if case.get("repeat") else ""
    if case.get("pyflags"):
        rep = f" (interpreter started with {' '.join(case['pyflags'])})"
    if inserted:
        what = "error:" + case["insert"]["class"]
    elif o["fired"]:
        f = o["fired"][0]
        what = f"fault:{f['op']}:{f['role']}:{f['errno']}"
    elif o.get("writer_fired"):
        what = "fault:writer_block"
    twin_ok = True
    twin: dict[str, Any] | None = None
    if not inserted:
        twin = twin_of(prog.all_files(), prog.all_roles(), prog.mapping, [list(d) for d in prog.defines])
        twin_ok = bool(twin["ok"])
    bad = inserted or fired or not twin_ok
    # reach statistics
    ctx = case["insert"]["slot"]["ctx"] if inserted else "-"
    if inserted and case["insert"].get("nest"):
        stats.bump("probe:error_under_deep_nesting")
    if inserted:
        if ctx == "macro_def":
            stats.bump("probe:error_in_macro_body")
        if ctx == "included_file":
            stats.bump("probe:error_in_included_file")
        if ctx in ("for", "if", "if_else", "block", "scope"):
            stats.bump("probe:error_in_nested_construct")
    if o["fired"]:
        f = o["fired"][0]
        if f["op"] in ("write", "close") and any(e[1] == "write" and e[2].startswith("out_") for e in o["events"]):
            stats.bump("probe:fault_after_first_output_write")
    opclass = "-"
    if o["fired"]:
        nth = o["fired"][0]["nth"]
        opclass = "first" if nth == 0 else "later"
    if bad:
        stats.state(entry, what, ctx, opclass, spec.get("format") or spec.get("out"), prog.mapping)
    out: list[Violation] = []
    detail = {"outcome": {k: o.get(k) for k in ("kind", "ret", "exc", "announced", "log_tail", "stdout", "argv", "fired")}}
    if o["kind"] == "timeout":
        stats.bump("no_verdict(step budget exceeded: termination is C15's subject)")
        return out
    if bad:
        if o["ok"]:
            out.append(Violation("success_reported_on_failure", f"{entry}|{':'.join(what.split(':')[:3])}", f"{entry}{rep}: {what} but the caller was told success (kind={o['kind']} ret={o.get('ret')!r})", case, detail))
        elif o["announced"] and (inserted or any(not f["role"].startswith("out_") for f in o["fired"])):
            # judged for the statement's own classes (source errors, unreadable inputs) only: an output that
            # fails at its final flush/close after the assembly itself completed is judged on status alone.
            out.append(Violation("success_announced_on_failure", f"{entry}|{':'.join(what.split(':')[:3])}", f"{entry}: {what}, non-success status {o.get('ret')!r}/{o.get('exc')} but success was announced", case, detail))
    else:
        if not o["ok"]:
            out.append(Violation("failure_reported_on_success", entry, f"{entry}: nothing was wrong (twin assembles) but the caller was told failure: kind={o['kind']} ret={o.get('ret')!r} exc={o.get('exc')}", case, detail))
        else:
            assert twin is not None
            img, how = output_image(o, spec)
            want = ipsref.image_of_blocks(twin["blocks"])
            stats.bump("probe:clean_run_output_compared")
            if img is None:
                out.append(Violation("output_mismatch_on_success", f"{entry}|{how.split(':')[0]}", f"{entry}: success status but {how}", case, detail))
            elif how == "sfc":
                if img.flat() != want.flat():
                    out.append(Violation("output_mismatch_on_success", f"{entry}|sfc", f"{entry}: success status but the SFC image differs from the in-memory twin: {'; '.join(img.diff(ipsref.image_of_flat(want.flat())))}", case, detail))
            elif img != want:
                out.append(Violation("output_mismatch_on_success", f"{entry}|{how}", f"{entry}: success status but output differs from the in-memory twin: {'; '.join(img.diff(want))}", case, detail))
    return out


def derived_variant(case: dict[str, Any]) -> progen.Prog | None:
    """The base program with the k-th removable statement of main.s removed."""
    prog = progen.Prog.from_record(case["prog"])
    k = 0
    for p in progen.iter_removals(prog):
        if p.inc_roots != prog.inc_roots:
            break  # removals inside included files come last; only main.s is varied here
        if k == case["remove"]:
            return p
        k += 1
    return None


def run_derived(case: dict[str, Any], stats: Stats) -> list[Violation]:
    """A failing program derived from a valid one by deleting a statement something else depends on (a
    macro definition, a label, a constant, a table).  'Cannot be assembled' is decided by the in-memory
    API in a pristine process; the variant is then given to an entry point - alone, or right after the
    valid original was assembled in the same process (what an IDE / build server / test-suite does) -
    and must be reported as a failure there too."""
    prog = progen.Prog.from_record(case["prog"])
    variant = derived_variant(case)
    if variant is None:
        return []
    vfiles, vroles = variant.all_files(), variant.all_roles()
    twin = twin_of(vfiles, vroles, variant.mapping, [list(d) for d in variant.defines])
    stats.add_outcome(twin)
    if twin["ok"] or twin["kind"] == "timeout":
        stats.bump("derived:removal_leaves_a_valid_program(no verdict)")
        return []
    files, roles = prog.all_files(), out_roles(prog.all_roles())
    files["variant.s"] = vfiles["main.s"]
    roles["variant.s"] = "source"
    spec2 = dict(case["spec"], src="variant.s")
    op2 = {"op": "exec", "spec": spec2, "knobs": {}, "faults": []}
    after_valid = bool(case.get("after_valid"))
    if after_valid:
        op1 = {"op": "exec", "spec": dict(case["first_spec"]), "knobs": {}, "faults": []}
        first, o = entries.execute(files, roles, [op1, op2])
        stats.add_outcome(first)
        stats.bump("probe:derived_failure_after_valid_original_in_same_process")
    else:
        (o,) = entries.execute(files, roles, [op2])
        stats.bump("probe:derived_failure_alone")
    stats.add_outcome(o)
    entry = spec2["entry"]
    why = (twin.get("exc") or {}).get("type") or "error_returned"
    stats.state(entry, "derived:" + why, after_valid, prog.mapping)
    if o["kind"] == "timeout":
        return []
    detail = {"outcome": {k: o.get(k) for k in ("kind", "ret", "exc", "announced", "log_tail", "stdout", "argv")}, "in_memory_alone": twin.get("exc") or twin.get("ret")}
    rep = " right after the valid original was assembled in the same process" if after_valid else ""
    if o["ok"]:
        return [Violation("success_reported_on_failure", f"{entry}|derived:{why}" + ("|after_valid" if after_valid else ""), f"{entry}{rep}: the program fails in memory in a fresh process ({twin.get('exc') or twin.get('ret')}) but the caller was told success (kind={o['kind']} ret={o.get('ret')!r})", case, detail)]
    if o["announced"]:
        return [Violation("success_announced_on_failure", f"{entry}|derived:{why}", f"{entry}{rep}: non-success status {o.get('ret')!r}/{o.get('exc')} but success was announced", case, detail)]
    return []


# ---------------------------------------------------------------------------
# base case: enumerate


def benign_knobs(rng: random.Random) -> dict[str, Any]:
    k: dict[str, Any] = {}
    if rng.random() < 0.8:
        k["bufsize"] = rng.choice([16, 17, 31, 64, 512, 4096])
    if rng.random() < 0.5:
        k["short_reads"] = rng.getrandbits(32)
    if rng.random() < 0.5:
        k["short_writes"] = rng.getrandbits(32)
    if rng.random() < 0.3:
        k["locale_encoding"] = rng.choice(["latin-1", "cp1252", "ascii", "utf-8"])
    if rng.random() < 0.2:
        k["warnings"] = "error"  # python -W error
    return k


def sub_cases(case: dict[str, Any], stats: Stats) -> Iterator[dict[str, Any]]:
    prog = progen.Prog.from_record(case["prog"])
    rng = core.substream(case["seed"], "faults")
    krng = core.substream(case["seed"], "knobs")
    copier, fmt = case["copier"], case["cli_format"]
    specs = {e: entry_spec(e, prog, copier, fmt) for e in ENTRIES}
    base = {"type": "single", "prog": case["prog"]}
    if case.get("only_interpreter_flags"):
        slots0 = list(progen.iter_slots(prog))
        for e in ENTRIES:
            yield dict(base, spec=specs[e], knobs={}, pyflags=case["only_interpreter_flags"])
        for klass in ERROR_CLASSES:
            if ERROR_CLASSES[klass].get("c19_only") or (klass == "unmapped_bank" and not prog.unmapped_addr):
                continue
            if klass in ("run_off_mapped_rom", "address_beyond_24_bits", "branch_64k_away") and "map" in prog.features:
                continue
            ok_slots = [s for s in slots0 if applicable(klass, s)]
            if ok_slots:
                yield dict(base, spec=specs[rng.choice(ENTRIES)], insert={"class": klass, "slot": rng.choice(ok_slots)}, knobs={}, pyflags=case["only_interpreter_flags"])
        return
    # (1) clean runs: default knobs, then benign perturbations
    for e in ENTRIES:
        yield dict(base, spec=specs[e], knobs={})
        yield dict(base, spec=specs[e], knobs=benign_knobs(krng))
    # (2) D6: error class x slot (seeded entry) + error class x entry product at a seeded slot
    slots = list(progen.iter_slots(prog))
    for klass in ERROR_CLASSES:
        if ERROR_CLASSES[klass].get("c19_only"):
            continue
        if klass == "unmapped_bank" and not prog.unmapped_addr:
            continue
        if klass in ("run_off_mapped_rom", "address_beyond_24_bits", "branch_64k_away") and "map" in prog.features:
            continue  # a program that installs its own mapping decides what is mapped
        ok_slots = [s for s in slots if applicable(klass, s)]
        if not ok_slots:
            continue
        s0 = rng.choice(ok_slots)
        if klass == "unmapped_bank" and "map" not in prog.features:
            # one execution per edge bank of the unmapped ranges of this mapping
            for bank in UNMAPPED_BANKS.get(prog.mapping, []):
                yield dict(base, spec=specs[rng.choice(ENTRIES)], insert={"class": klass, "slot": s0, "addr": (bank << 16) | 0x8000}, knobs={})
        if case.get("padded"):
            # every run scans > 64 KiB of text: one file entry point per class, at the last slot (after the
            # padding); the full product is what the unpadded base programs are for
            yield dict(base, spec=specs[rng.choice(FILE_ENTRIES)], insert={"class": klass, "slot": ok_slots[-1]}, knobs={})
            continue
        for e in ENTRIES:
            yield dict(base, spec=specs[e], insert={"class": klass, "slot": s0}, knobs={}, repeat=rng.random() < 0.25, odd_format=rng.randrange(len(ODD_FORMATS)) if e == "cli" and rng.random() < 0.3 else None)
        others = [s for s in ok_slots if s is not s0]
        if case.get("padded"):
            others = others[-2:]  # every run scans > 64 KiB: the slots after the padding are the ones that matter
        elif case.get("tier") != "thorough" and len(others) > SLOTS_PER_CLASS:
            # keep every distinct context kind, then fill up by seed
            by_ctx: dict[str, dict[str, Any]] = {}
            for s in others:
                by_ctx.setdefault(s["ctx"] + str(s["assembled"]), s)
            keep = list(by_ctx.values())
            rest = [s for s in others if s not in keep]
            rng.shuffle(rest)
            others = keep + rest[: max(0, SLOTS_PER_CLASS - len(keep))]
        for s in others:
            yield dict(base, spec=specs[rng.choice(ENTRIES)], insert={"class": klass, "slot": s}, knobs=benign_knobs(krng) if rng.random() < 0.3 else {}, repeat=rng.random() < 0.15)
    if case.get("padded"):
        return
    # (2a) the same errors at the bottom of deep block nesting (65, 150 levels)
    nestable = [k for k in ERROR_CLASSES if not ERROR_CLASSES[k].get("c19_only") and not ERROR_CLASSES[k].get("top_only") and not ERROR_CLASSES[k].get("last_only") and k not in ("too_few_macro_args", "undefined_macro_argument", "undefined_macro_argument_unused", "macro_operand_too_wide_on_second_application", "macro_immediate_too_wide_on_second_application", "unclosed_brace", "unclosed_macro", "stray_closing_brace", "unmapped_bank", "branch_out_of_range", "branch_plus_128", "branch_minus_129")]
    top_slots = [s for s in slots if s["ctx"] in ("top", "included_file") and s["assembled"]]
    if top_slots:
        for klass in rng.sample(nestable, 6 if case.get("tier") != "thorough" else 20):
            if klass in ("run_off_mapped_rom", "address_beyond_24_bits", "branch_64k_away") and "map" in prog.features:
                continue
            yield dict(base, spec=specs[rng.choice(ENTRIES)], insert={"class": klass, "slot": rng.choice(top_slots), "nest": rng.choice([65, 70, 150])}, knobs={})
    # (2b) failures derived from the valid program itself: one statement of main.s removed
    defs: list[int] = []
    rest: list[int] = []
    for k, (_p, node, file) in enumerate(progen.iter_removals(prog, with_node=True)):  # type: ignore[misc]
        if file != "main.s":
            break
        t = (node.get("h") or node.get("t") or "").strip()
        is_def = t.endswith(":") or t.startswith((".macro", ".table", ".scope", ".incbin", ".include")) or " = " in t or ":=" in t
        (defs if is_def else rest).append(k)
    rng.shuffle(defs)
    rng.shuffle(rest)
    cap = 16 if case.get("tier") != "thorough" else 64
    picks = defs[:cap] + rest[: max(2, cap - len(defs))] if len(defs) < cap else defs[:cap]
    for k in picks:
        e2 = rng.choice(ENTRIES)
        yield dict(base, type="derived", remove=k, spec=specs[e2], after_valid=rng.random() < 0.6, first_spec=specs[rng.choice(ENTRIES)])
    # (3) D5: failing user Writer
    twin = twin_of(prog.all_files(), prog.all_roles(), prog.mapping, [list(d) for d in prog.defines])
    for e in ("string", "with_emitter"):
        for k in range(len(twin["blocks"]) + 1):
            yield dict(base, spec=specs[e], writer_fail_at=k, knobs={})
    # (4) D1/D2/D3: every crash point of every file entry point
    files, roles = prog.all_files(), out_roles(prog.all_roles())
    for e in ENTRIES:
        knobs = {"bufsize": krng.choice([16, 32, 64])}
        o = entries.execute_one(files, roles, specs[e], knobs, [])
        stats.add_outcome(o)
        for role, op, nth in o["points"]:
            is_out = role.startswith("out_")
            if op == "close" and not is_out:
                continue
            if op == "open":
                errnos = ["EACCES", "ENOSPC"] if is_out else ["ENOENT", "EACCES", "EISDIR"]
            elif op == "read":
                errnos = ["EIO"]
            elif op == "write":
                errnos = [rng.choice(["ENOSPC", "EIO"])]
            else:
                errnos = [rng.choice(["EIO", "ENOSPC"])]
            for en in errnos:
                yield dict(base, spec=specs[e], knobs=knobs, faults=[{"op": op, "role": role, "nth": nth, "errno": en}])


def run_case(case: dict[str, Any], stats: Stats) -> list[Violation]:
    if case.get("type") == "single":
        return run_single(case, stats)
    if case.get("type") == "derived":
        return run_derived(case, stats)
    prog = progen.Prog.from_record(case["prog"])
    twin = twin_of(prog.all_files(), prog.all_roles(), prog.mapping, [list(d) for d in prog.defines])
    stats.add_outcome(twin)
    if not twin["ok"]:
        stats.bump("generator_discard(twin failed)")
        return []
    found: list[Violation] = []
    seen: set[str] = set()
    for sub in sub_cases(case, stats):
        if runner_should_stop():
            break
        for v in (run_derived(sub, stats) if sub.get("type") == "derived" else run_single(sub, stats)):
            key = v.klass + "|" + v.sig
            if key not in seen:
                seen.add(key)
                found.append(v)
        if len(found) >= 6:
            break
    return found


def sample_of(case: dict[str, Any]) -> Any:
    if case.get("type") == "derived":
        variant = derived_variant(case)
        c = {k: v for k, v in case.items() if k != "prog"}
        c["sources"] = {"main.s": progen.render(progen.Prog.from_record(case["prog"]).root), "variant.s": progen.render(variant.root) if variant else None}
        return core.to_jsonable(c)
    if case.get("type") == "single":
        prog, files, _roles = build_files(case)
        c = {k: v for k, v in case.items() if k != "prog"}
        c["sources"] = {k: v.decode("utf-8", "replace") for k, v in files.items() if k.endswith(".s")}
        return core.to_jsonable(c)
    prog = progen.Prog.from_record(case["prog"])
    return {"type": "base", "mapping": prog.mapping, "features": prog.features, "main.s": progen.render(prog.root), "defines": prog.defines}


def shrink_candidates(case: dict[str, Any]) -> Iterator[dict[str, Any]]:
    if case.get("type") != "single":
        return
    if case.get("repeat"):
        yield dict(case, repeat=False)
    for key in ("knobs",):
        if case.get(key):
            for k in list(case[key]):
                c = dict(case)
                c[key] = {a: b for a, b in case[key].items() if a != k}
                yield c
    prog = progen.Prog.from_record(case["prog"])
    ins = case.get("insert")
    if ins is None:
        for p in progen.iter_removals(prog):
            c = dict(case)
            c["prog"] = p.to_record()
            yield c
    else:
        # removing statements shifts slots: re-insert at the first/last applicable slot of the smaller program
        for p in progen.iter_removals(prog):
            slots = [s for s in progen.iter_slots(p) if applicable(ins["class"], s) and s["ctx"] == ins["slot"]["ctx"]]
            if not slots:
                continue
            c = dict(case)
            c["prog"] = p.to_record()
            c["insert"] = {"class": ins["class"], "slot": slots[0]}
            yield c
    if case["spec"].get("defines") and not prog.defines:
        c = dict(case)
        c["spec"] = dict(case["spec"], defines=[])
        yield c


def evidence(total: Stats, tier: str) -> dict[str, Any]:
    return {
        "components_real": ["a816 (all of a816/ and script/)", "argparse", "logging", "CPython io.BufferedReader/BufferedWriter/TextIOWrapper", "kernel tmpfs"],
        "components_stubbed": ["raw file layer (SimRaw)", "sys.argv / SystemExit capture (cli_main called in-process)", "stdout/stderr", "user Writer (RecordingWriter, can fail at block k)"],
        "reference_models": ["pristine-fork in-memory twin", "sim.ipsref IPS reader/applier"],
        "error_classes": sorted(ERROR_CLASSES),
        "entry_points": list(ENTRIES),
        "exhaustive_within_run": "every raw open/read/write/close of each file entry point's fault-free run is used as a crash point; every statement slot is used for every applicable error class",
        "simulated_time": "no clock in this system; reported as I/O operations simulated",
    }
