"""C13 - including an IPS patch reproduces that patch's effect, shifted by delta.

The patch is a *stored file produced by someone else*, read through CPython's
real BufferedReader on the simulated raw layer (seeded buffer size, short raw
reads).  Definite faults: the stored bytes are damaged after being generated
(EOF at an offset = torn write, dropped/garbled header, flipped bytes, lost or
duplicated chunk), the file is missing, or the k-th raw read fails.
The damaged bytes are classified by sim.ipsref independently of a816.
"""
from __future__ import annotations

import os
import random
from typing import Any, Iterator

from .. import core, entries, ipsref, progen, simenv
from ..runner import Stats, Violation
from ..runner import should_stop as runner_should_stop
from .c14 import twin_of

PROP = "C13"
LEVEL = "fault_enumeration"
RULE = (
    "patches built by the reference encoder (plain records of sizes 1,2,small,255/256,4093-4099,8189-8195,65535; RLE records "
    "with runs 1..65535; adjacent, overlapping and repeated offsets; many tiny records so EOF lands on every residue of the "
    "buffer size) or by a816's own IPSWriter; signed deltas (0, small, +-0x200, large); directive inserted at a seeded "
    "assembled slot of a progen host program. Fault-free: buffer size in 16..8192 and short raw reads. Faults per patch: EOF at "
    "every byte offset (all offsets for patches <= 400 bytes, span boundaries +-1 and seeded offsets above), dropped/garbled "
    "header, flipped bytes, lost/duplicated chunk, ENOENT, EIO on each raw read. Non-trivial = at least one record; distinct = "
    "(record-kind classes, delta class, buffer size, fault class and the part of the file it landed in)."
)
ASSUMPTIONS = [
    "sim.ipsref defines 'well-formed IPS file' and classifies damaged files (missing_header, truncated_record, missing_eof, trailing_bytes)",
    "no accept/reject verdict for files whose only defect is bytes after the EOF marker (the statement is silent); a missing EOF marker is 'not well-formed' and must be rejected",
    "record targets (offset+delta) never overlap the host program's own output, so the order between host blocks and patch blocks does not matter",
    "short raw reads are only injected below a BufferedReader (legal for any raw stream)",
]
REQUIRED_REACH = [
    "probe:rle_record",
    "probe:rle_zero_run_followed_by_records",
    "probe:long_rle_followed_by_rle",
    "probe:record_lands_at_start_of_image",
    "probe:record_ends_at_top_of_image",
    "probe:patch_path_through_symlink_and_dotdot",
    "probe:one_directive_expanded_twice_with_different_deltas",
    "probe:delta_defined_on_the_command_line",
    "probe:eof_marker_straddles_refill",
    "probe:truncated_in:payload",
    "probe:truncated_in:rec_offset",
    "probe:truncated_in:rec_size",
    "probe:truncated_in:rle_fields",
    "probe:truncated_in:header",
    "probe:truncated_in:eof",
    "fault_fired:read:ips_in:EIO",
    "probe:directive_in_macro_or_loop",
    "probe:patch_from_a816_ipswriter",
    "probe:patch_included_twice",
    "probe:directive_through_assemble_as_patch_copier",
]

FREE_LO, FREE_HI = 0x100000, 0x2F0000  # physical zone the host never writes (far banks are off)
PLAIN_SIZES = [1, 2, 3, 5, 16, 255, 256, 4093, 4094, 4095, 4096, 4097, 4098, 4099, 8189, 8190, 8191, 8192, 8193, 8194, 8195, 65535]


def size_class(n: int) -> str:
    if n <= 3:
        return str(n)
    if n < 255:
        return "small"
    if n <= 256:
        return "256ish"
    if n <= 4099:
        return "4k"
    if n <= 8195:
        return "8k"
    return "max"


def gen_records(rng: random.Random, delta: int) -> list[tuple[int, str, Any, int]]:
    """records as (offset, kind, payload, fill-seed); payload for plain is a length."""
    style = rng.choice(["mixed", "mixed", "tiny_many", "big", "rle_heavy", "single", "empty"] if rng.random() < 0.3 else ["mixed", "mixed", "tiny_many", "big", "rle_heavy", "single"])
    n = {"mixed": rng.randrange(1, 7), "tiny_many": rng.randrange(6, 13) if rng.random() < 0.9 else rng.randrange(150, 400), "big": rng.randrange(1, 3), "rle_heavy": rng.randrange(1, 6), "single": 1, "empty": 0}[style]
    recs: list[tuple[int, str, Any, int]] = []
    cursor = rng.randrange(FREE_LO, FREE_HI)
    for i in range(n):
        r = rng.random()
        if style == "tiny_many":
            size = rng.choice([1, 1, 2, 3, 4, 5, 7])
        elif style == "big":
            size = rng.choice(PLAIN_SIZES[7:])
        else:
            size = rng.choice(PLAIN_SIZES) if r < 0.5 else rng.randrange(1, 40)
        is_rle = rng.random() < (0.6 if style == "rle_heavy" else 0.25)
        # target placement: adjacent / overlapping / repeated / fresh
        p = rng.random()
        if recs and p < 0.3:
            target = cursor  # adjacent to the previous record
        elif recs and p < 0.45:
            target = max(FREE_LO, cursor - rng.randrange(1, 8))  # overlaps the previous record
        elif recs and p < 0.55:
            target = recs[rng.randrange(len(recs))][0] + delta  # repeated offset
        else:
            target = rng.randrange(FREE_LO, FREE_HI)
        off = target - delta
        if not 0 <= off < (1 << 24) or off == ipsref.EOF_OFFSET:
            off = rng.randrange(FREE_LO, FREE_HI) - delta
            if not 0 <= off < (1 << 24) or off == ipsref.EOF_OFFSET:
                continue
        if rng.random() < 0.08:
            # marker bytes straddling record fields: offset ..45 4F + size 46 xx, or RLE fields 45 4F 46
            if rng.random() < 0.5:
                boff = (rng.randrange(0x10, 0x2F) << 16) | 0x454F
                if 0 <= boff < (1 << 24) and FREE_LO <= boff + delta < FREE_HI:
                    recs.append((boff, "plain", 0x4600 + rng.randrange(0, 0x20), rng.getrandbits(32)))
                    cursor = boff + delta + 0x4620
                    continue
            else:
                recs.append((off, "rle", (0x454F, 0x46), 0))
                cursor = off + delta + 0x454F
                continue
        if is_rle:
            run = rng.choice([1, 2, 3, 255, 256, 4095, 4096, 4097, 65535, rng.randrange(1, 300), rng.randrange(0x1000, 0x4000), 0])  # 0: writes nothing
            recs.append((off, "rle", (run, rng.randrange(256)), 0))
            cursor = off + delta + run
        else:
            recs.append((off, "plain", size, rng.getrandbits(32)))
            cursor = off + delta + size
    return recs


def materialise(recs: list[Any]) -> list[ipsref.Record]:
    """fill seeds with the low two bits == 3 plant the bytes 'EOF' inside the payload (start, middle or
    end): the end-of-patch marker is only a marker at a record boundary."""
    out: list[ipsref.Record] = []
    for off, kind, payload, fill in recs:
        if kind == "rle":
            out.append((off, "rle", (payload[0], payload[1])))
        else:
            data = bytearray(random.Random(fill).randbytes(payload))
            if fill & 3 == 3 and payload >= 3:
                pos = [0, (payload - 3) // 2, payload - 3][(fill >> 2) % 3]
                data[pos : pos + 3] = b"EOF"
            out.append((off, "plain", bytes(data)))
    return out


DELTAS = [0, 0, 0, 1, -1, 7, 0x200, -0x200, 0x8000, -0x8000, 0x100000, -0xFFFFF, 0x7FFFFF]


def gen_case(cseed: int, tier: str) -> dict[str, Any]:
    w = core.substream(cseed, "workload")
    mapping = w.choice(["low", "high"])
    feats = {x for x in progen.ALL_FEATURES if w.random() < 0.45}
    feats |= {"data"}
    feats -= {"map", "far_banks", "defines"}
    if w.random() < 0.5:
        feats |= {"macros", "for"}
    if w.random() < 0.4:
        feats |= {"reloc"}
    low_target = w.random() < 0.15
    if low_target:
        feats |= {"avoid_first_bank"}  # the host leaves the start of the image to the patch
    prog = progen.gen_program(w, mapping, feats, [], size=w.choice([4, 8, 12]))
    delta = w.choice(DELTAS)
    edge = None
    low_first = None
    if low_target:
        # a record that lands at the very start of the image (final address 0, 1, ...): e.g. a patch made
        # for a copier-headered ROM included with delta -0x200
        t0 = w.choice([0, 0, 0, 1, 2, 0xFF, 0x1FF, 0x200])
        off0 = t0 + w.choice([0, 0x200, 0x200, 0x8000, 0x100000])
        delta = t0 - off0
        n0 = w.choice([1, 2, 3, 16, 255])
        low_first = (off0, "rle", (n0, w.randrange(1, 256)), 0) if w.random() < 0.3 else (off0, "plain", n0, w.getrandbits(32))
    if not low_target and w.random() < 0.2:
        # a record at an edge of the 24-bit offset space; the delta is chosen so that it lands in the free zone
        edge = w.choice([0, 1, 0xFFFF, 0x10000, 0xFF0000, 0xFFFFFE, 0xFFFFFF, 0x454F45, 0x454F47])
        delta = w.randrange(FREE_LO, FREE_HI - 0x10000) - edge
    recs = gen_records(w, delta)
    if edge is not None:
        n = w.choice([1, 2, 255, 4096])
        first = (edge, "rle", (n, w.randrange(256)), 0) if w.random() < 0.3 else (edge, "plain", n, w.getrandbits(32))
        recs = [first] + recs[: w.randrange(0, 4)]
    if low_first is not None:
        k = w.randrange(0, len(recs) + 1)
        recs = recs[:k] + [low_first] + recs[k:]
        if delta < 0 and w.random() < 0.5:
            # a record that starts inside the stripped header: it lands (partly) below address 0.  Nothing is
            # stated about that record; the records after it must still land where they belong
            below = w.choice([1, 2, 0x10, 0x1F0])
            offn = -delta - below
            if offn >= 0:
                nrec = (offn, "plain", w.choice([below, below + 4, 3]), w.getrandbits(32))
                recs = [nrec] + recs
    elif edge is None and w.random() < 0.1:
        # a record that ends exactly at the top of the 24-bit image (last byte at 0xFFFFFF), or one byte
        # below it: a perfectly valid place for a record to land
        n1 = w.choice([1, 2, 16, 255, 0xFFFF])
        end = (1 << 24) - w.choice([0, 0, 1])
        off1 = end - n1 - delta
        if 0 <= off1 < (1 << 24) and off1 != ipsref.EOF_OFFSET:
            top_rec = (off1, "rle", (n1, w.randrange(1, 256)), 0) if w.random() < 0.4 else (off1, "plain", n1, w.getrandbits(32))
            k = w.randrange(0, len(recs) + 1)
            recs = recs[:k] + [top_rec] + recs[k:]
    slots = [s for s in progen.iter_slots(prog) if s["assembled"] and not (s["file"] == "main.s" and not s["path"] and s["pos"] == 0)]
    slot = w.choice(slots)
    if low_first is None and edge is None and w.random() < 0.08:
        # a record that lands exactly where the host's output has got to when the directive is met (the end of
        # the block being built), with more host output after the directive: the host's bytes must stay where
        # they belong (who wins on the shared addresses is not judged)
        k0, m0 = w.choice([1, 2, 4, 7]), w.choice([1, 2, 5])
        bank = w.choice([0x01, 0x02, 0x05])
        prog = progen.gen_program(random.Random(1), "low", {"data"}, [], size=1)
        prog.root = [
            {"k": "stareq", "t": f"*=0x{bank:02x}8000", "keep": True},
            {"k": "stmt", "t": ".db " + ", ".join(str(w.randrange(256)) for _ in range(k0))},
            {"k": "stmt", "t": ".db " + ", ".join(str(w.randrange(256)) for _ in range(m0))},
            {"k": "stmt", "t": "rts"},
        ]
        prog.global_labels, prog.local_labels, prog.label_sites, prog.table_addr, prog.mapping = [], [], [], None, "low"
        here = bank * 0x8000 + k0
        n1 = w.choice([1, 2, 3, 8])
        off1 = here - delta
        if 0 <= off1 < (1 << 24) - 16 and off1 != ipsref.EOF_OFFSET:
            recs = [(off1, "plain", n1, w.getrandbits(32))] + ([(off1 + n1, "plain", 2, w.getrandbits(32))] if w.random() < 0.5 else []) + recs[:2]
        slot = {"file": "main.s", "path": [], "pos": 2, "assembled": True, "ctx": "top", "last": False}
    dform = w.choice(["lit", "lit", "const", "const_reassigned", "const_signed", "macro_arg", "macro_arg", "define", "expr"])
    return {
        "type": "base",
        "seed": cseed,
        "prog": prog.to_record(),
        "records": recs,
        "delta": delta,
        "delta_form": dform,
        "slot": slot,
        "via_writer": w.random() < 0.15 and all(r[1] == "plain" for r in recs),
        "second_delta": (delta + 0x400000) if (w.random() < 0.3 or (dform == "macro_arg" and w.random() < 0.5)) else None,
        "patch_path": w.choice(["p.ips", "p.ips", "sub/p.ips", "a b/p-1.ips", "$ROOT$/p.ips", "$ROOT$/sub/p.ips", "lnk/../p.ips", "sub/../p.ips", "./p.ips", "FF4 (U) [T+Eng1.0] hack.ips", "p[1].ips", "p?.ips", "a*b.ips", "{p,q}.ips", "~p.ips", "$HOME.ips", "%TEMP%.ips", "p;q.ips", "p#1.ips"]),
        "decoy": w.random() < 0.5,
    }


def plan(tier: str) -> dict[str, Any]:
    return {"fixed": [], "seeded": 200 if tier == "quick" else 0, "chunk": 2, "wall_cap_s": 240, "minimise_s": 30}


# ---------------------------------------------------------------------------


def host_with_directive(case: dict[str, Any]) -> progen.Prog:
    prog = progen.Prog.from_record(case["prog"])
    delta = case["delta"]
    nodes: list[progen.Node] = []
    if case.get("delta_form") in ("const_signed", "macro_arg"):
        # the (possibly negative) delta reaches the directive through a symbol / a macro argument
        lit = f"{delta:#x}" if delta >= 0 else f"-{-delta:#x}"
        path0 = case.get("patch_path") or "p.ips"
        if case["delta_form"] == "const_signed":
            head = [{"k": "stmt", "t": f"DELTA_zq := {lit}"}]
            body = {"k": "include_ips", "t": f".include_ips '{path0}', DELTA_zq", "under_test": True}
        else:
            head = [progen.block(".macro inc_zq(off_zq) {", [{"k": "include_ips", "t": f".include_ips '{path0}', off_zq", "under_test": True}], "macro_def")]
            body = {"k": "apply", "t": f"inc_zq({lit})", "under_test": True}
        prog = progen.clone(prog)  # never mutate the case record (it is shared by all sub-cases)
        prog.root[0:0] = head
        slot = dict(case["slot"])
        if slot["file"] == "main.s":
            if not slot["path"]:
                slot["pos"] += 1
            else:
                slot["path"] = [(slot["path"][0][0] + 1, slot["path"][0][1])] + [tuple(x) for x in slot["path"][1:]]
        prog = progen.insert_at(prog, slot, body)
        if case.get("second_delta") is not None:
            sd = case["second_delta"]
            if case["delta_form"] == "macro_arg":
                # the same directive (one AST node, inside the macro body) expanded a second time with another delta
                prog.root.append({"k": "apply", "t": f"inc_zq({sd:#x})" if sd >= 0 else f"inc_zq(-{-sd:#x})", "under_test": True})
            else:
                prog.root.append({"k": "include_ips", "t": f".include_ips '{path0}', {sd:#x}", "under_test": True})
        return prog
    if case.get("delta_form") == "expr":
        # the delta written as an unparenthesised expression (left-to-right, usual precedence)
        path0 = case.get("patch_path") or "p.ips"
        er = random.Random(case["seed"] ^ 0xE9)
        b, c = er.randrange(1, 0x4000), er.randrange(1, 0x4000)
        forms = []
        a = delta + b - c
        if a >= 0:
            forms.append(f"{a:#x} - {b:#x} + {c:#x}")
        a2 = c - delta
        if a2 >= 0:
            forms.append(f"-{a2:#x} + {c:#x}")
        a3 = delta - b * 2
        if a3 >= 0:
            forms.append(f"{a3:#x} + {b:#x} * 2")
            forms.append(f"{b:#x} * 2 + {a3:#x}")
        if delta >= 0 and delta % 4 == 0:
            forms.append(f"{delta * 2:#x} >> 3 << 2")
        a4 = delta + b
        if a4 >= 0:
            forms.append(f"{a4:#x} - {b:#x}")
        if not forms:
            forms.append(f"{delta:#x}" if delta >= 0 else f"-{-delta:#x}")
        prog = progen.insert_at(prog, case["slot"], {"k": "include_ips", "t": f".include_ips '{path0}', {er.choice(forms)}", "under_test": True})
        if case.get("second_delta") is not None:
            prog.root.append({"k": "include_ips", "t": f".include_ips '{path0}', {case['second_delta']:#x}", "under_test": True})
        return prog
    if case.get("delta_form") == "define":
        # the delta is a name the caller defines (-D DELTA_zq=... on the command line, add_symbol in the API)
        path0 = case.get("patch_path") or "p.ips"
        prog = progen.insert_at(prog, case["slot"], {"k": "include_ips", "t": f".include_ips '{path0}', DELTA_zq", "under_test": True})
        if case.get("second_delta") is not None:
            prog.root.append({"k": "include_ips", "t": f".include_ips '{path0}', DELTA_zq + 0x400000", "under_test": True})
        return prog
    if case.get("delta_form") in ("const", "const_reassigned"):
        text = f"DELTA_zq := {abs(delta):#x}"
        expr = "DELTA_zq" if delta >= 0 else "0 - DELTA_zq"
        prog = progen.insert_at(prog, {"file": "main.s", "path": [], "pos": 0}, {"k": "stmt", "t": text})
        slot = dict(case["slot"])
        if slot["file"] == "main.s":
            if not slot["path"]:
                slot["pos"] += 1
            else:
                slot["path"] = [(slot["path"][0][0] + 1, slot["path"][0][1])] + [tuple(x) for x in slot["path"][1:]]
    else:
        expr = f"{delta:#x}" if delta >= 0 else f"-{-delta:#x}"
        slot = case["slot"]
    path = case.get("patch_path") or "p.ips"
    prog = progen.insert_at(prog, slot, {"k": "include_ips", "t": f".include_ips '{path}', {expr}", "under_test": True})
    if case.get("delta_form") == "const_reassigned":
        # the assembly-time variable gets another value later: the directive must use the value it had
        prog.root.append({"k": "stmt", "t": "DELTA_zq := 0x777"})
    if case.get("second_delta") is not None:
        # the same stored patch included a second time with another delta (targets 4 MiB further up)
        prog.root.append({"k": "include_ips", "t": f".include_ips '{path}', {case['second_delta']:#x}", "under_test": True})
    return prog


def _make_with_writer(blocks: list[tuple[int, bytes]]) -> bytes:
    import io

    from a816.writers import IPSWriter

    f = io.BytesIO()
    w = IPSWriter(f)
    w.begin()
    for addr, data in blocks:
        w.write_block(data, addr)
    w.end()
    return f.getvalue()


def patch_bytes(case: dict[str, Any]) -> bytes:
    recs = materialise(case["records"])
    if case.get("via_writer"):
        return core.run_child(_make_with_writer, [(r[0], r[2]) for r in recs])
    return ipsref.encode(recs)


def apply_damage(data: bytes, dmg: dict[str, Any] | None) -> bytes:
    if not dmg:
        return data
    k = dmg["kind"]
    if k == "truncate":
        return data[: dmg["at"]]
    if k == "drop_header":
        return data[5:]
    if k == "garble_header":
        b = bytearray(data)
        b[dmg["at"] % 5] ^= 0x20
        return bytes(b)
    if k == "flip":
        b = bytearray(data)
        if b:
            b[dmg["at"] % len(b)] ^= dmg.get("mask", 0x01)
        return bytes(b)
    if k == "lose_chunk":
        a = dmg["at"] % max(1, len(data))
        return data[:a] + data[a + dmg["len"] :]
    if k == "dup_chunk":
        a = dmg["at"] % max(1, len(data))
        return data[: a + dmg["len"]] + data[a:]
    raise ValueError(k)


def part_at(spans: list[tuple[int, int, str]], at: int) -> str:
    for a, b, name in spans:
        if a <= at < b:
            return name
    return "end"


def run_single(case: dict[str, Any], stats: Stats) -> list[Violation]:
    prog = host_with_directive(case)
    # reference: the very same program text minus the .include_ips lines (keeps the DELTA_zq assignments,
    # so a tree that rejects re-assignment of a ':=' variable gives "no verdict", not an alarm)
    host = progen.clone(prog)

    def strip(nodes: list[progen.Node]) -> None:
        nodes[:] = [n for n in nodes if not n.get("under_test")]
        for n in nodes:
            if "body" in n:
                strip(n["body"])
            if n.get("else_body") is not None:
                strip(n["else_body"])

    strip(host.root)
    for nodes in host.inc_roots.values():
        strip(nodes)
    base_twin = twin_of(host.all_files(), host.all_roles(), host.mapping, [])
    if not base_twin["ok"]:
        stats.bump("generator_discard(host fails)")
        return []
    good = patch_bytes(case)
    dmg = case.get("damage")
    stored = apply_damage(good, dmg)
    files = prog.all_files()
    roles = prog.all_roles()
    ppath = (case.get("patch_path") or "p.ips").replace("$ROOT$/", "")
    if ppath.startswith("lnk/../"):
        # 'lnk' is a symbolic link to deep/dir: the OS resolves lnk/.. to deep/, not to the directory
        # the link lives in (where a decoy patch with other records may sit)
        files["deep/dir/.keep"] = b""
        files["lnk"] = simenv.symlink("deep/dir")
        if case.get("decoy"):
            files[ppath[len("lnk/../") :]] = ipsref.encode([(0x2F0000, "plain", b"decoy")])
        ppath = "deep/" + ppath[len("lnk/../") :]
        stats.bump("probe:patch_path_through_symlink_and_dotdot")
    elif any(ch in ppath for ch in "[]?*{}~$%") and case.get("decoy"):
        # a name full of characters that mean something to shells and glob(): a sibling that such a pattern
        # would match holds other records
        for sib in ("p1.ips", "pq.ips", "ab.ips", "axb.ips", "p.ips", "q.ips", "FF4 (U) E hack.ips", "FF4 (U) T hack.ips"):
            if sib != ppath:
                files[sib] = ipsref.encode([(0x2F0000, "plain", b"decoy")])
    elif "/../" in ppath or ppath.startswith("./"):
        if "/../" in ppath:
            files[ppath.split("/../")[0] + "/.keep"] = b""  # the directory named before '..' exists
        ppath = os.path.normpath(ppath)
    roles[ppath] = "ips_in"
    faults = case.get("faults") or []
    if not case.get("missing"):
        files[ppath] = stored
    knobs = case.get("knobs") or {}
    spec: dict[str, Any] = {"entry": "string", "src": "main.s", "rom": host.mapping}
    front = case.get("front_end")
    if front:
        # the same thing through a file front end: observed in the bytes of the produced patch
        spec = {"entry": "patch", "src": "main.s", "mapping": host.mapping, "copier": front == "copier", "out": "out.ips"}
        if case.get("delta_form") == "define":
            # a delta given with -D goes through the command line
            spec = {"entry": "cli", "src": "main.s", "format": "ips", "mapping": host.mapping, "copier": front == "copier", "out": "out.ips", "argv_style": case["seed"] & 0xFFFF}
            stats.bump("probe:delta_defined_on_the_command_line")
        roles["out.ips"] = "out_ips"
        stats.bump("probe:directive_through_assemble_as_patch" + ("_copier" if front == "copier" else ""))
    if case.get("delta_form") == "define":
        d0 = case["delta"]
        sign, mag = ("-" if d0 < 0 else ""), abs(d0)
        spellings = [str(d0), f"{sign}{mag:#x}", f"{sign}0X{mag:X}", f"{sign}0b{mag:b}", f"{sign}0o{mag:o}", f"{sign}{mag:_d}", f"{sign}0x{mag:_x}", ("+" if d0 >= 0 else "-") + str(mag)]
        spec["defines"] = [["DELTA_zq", spellings[(case["seed"] >> 16) % len(spellings)]]]
    o = entries.execute_one(files, roles, spec, knobs, faults)
    stats.add_outcome(o)
    if front and o["ok"]:
        data = entries.get_out(o, "out.ips")
        try:
            o["blocks"] = [(r[0] - (0x200 if front == "copier" else 0), ipsref.record_bytes(r)) for r in ipsref.parse(data or b"")]
        except ipsref.IpsFormatError as e:
            return [Violation("front_end_patch_malformed", e.klass, f"assemble_as_patch produced a malformed IPS file: {e}", case)]
        o["labels"] = base_twin["labels"] if o["labels"] is None else o["labels"]
    delta = case["delta"]
    klass = "missing" if case.get("missing") else ipsref.classify(stored)
    # ---- reach statistics
    recs = case["records"]
    kinds = tuple(sorted({("rle" if r[1] == "rle" else "plain:" + size_class(r[2])) for r in recs}))
    if any(r[1] == "rle" for r in recs):
        stats.bump("probe:rle_record")
    if any(r[1] == "rle" and r[2][0] == 0 for r in recs[:-1]):
        stats.bump("probe:rle_zero_run_followed_by_records")
    if any(r[1] == "rle" and r[2][0] >= 0x1000 and any(q[1] == "rle" for q in recs[i + 1 :]) for i, r in enumerate(recs)):
        stats.bump("probe:long_rle_followed_by_rle")
    if any(0 <= r[0] + delta < 0x400 for r in recs):
        stats.bump("probe:record_lands_at_start_of_image")
    if any(r[0] + delta + (r[2][0] if r[1] == "rle" else r[2]) == (1 << 24) for r in recs):
        stats.bump("probe:record_ends_at_top_of_image")
    if case.get("via_writer"):
        stats.bump("probe:patch_from_a816_ipswriter")
    if case.get("second_delta") is not None:
        stats.bump("probe:patch_included_twice")
        if case.get("delta_form") == "macro_arg":
            stats.bump("probe:one_directive_expanded_twice_with_different_deltas")
    if case["slot"]["ctx"] in ("macro_def", "for"):
        stats.bump("probe:directive_in_macro_or_loop")
    bs = knobs.get("bufsize") or 8192
    eof_at = len(good) - 3
    if not dmg and not faults and (eof_at % bs) > bs - 3:
        stats.bump("probe:eof_marker_straddles_refill")
    if o["counts"].get("peek_short_with_data_left:ips_in"):
        stats.bump("probe:peek_returned_short_with_data_left")
    site = "-"
    if dmg and dmg["kind"] == "truncate":
        site = part_at(ipsref.record_spans(good), dmg["at"])
        stats.bump(f"probe:truncated_in:{site}")
    fclass = "none"
    if dmg:
        fclass = dmg["kind"] + ">" + klass
    elif case.get("missing"):
        fclass = "missing"
    elif o["fired"]:
        fclass = "eio"
    dclass = "0" if delta == 0 else ("small" if abs(delta) < 0x100 else ("0x200" if abs(delta) == 0x200 else "large")) + ("-" if delta < 0 else "+")
    stats.state(kinds or ("no_records",), dclass, bs, bool(knobs.get("short_reads")), fclass, site, case["slot"]["ctx"])
    stats.bump(f"stored_file_class:{klass}")

    detail = {"outcome": {k: o.get(k) for k in ("kind", "ret", "exc", "fired")}, "stored_class": klass, "stored_len": len(stored), "bufsize": bs}
    out: list[Violation] = []
    if o["kind"] == "timeout":
        stats.bump("no_verdict(step budget exceeded: termination is C15's subject)")
        return out

    TOP = 1 << 24

    def expected_image(records: list[ipsref.Record]) -> ipsref.Image | None:
        """host output + every record at offset+delta; a record that lands (partly) outside the image is
        left out here, and so are such blocks of the observed output: nothing is stated about them."""
        img = ipsref.image_of_blocks(base_twin["blocks"])
        host_img = ipsref.image_of_blocks(base_twin["blocks"])
        for rec in records:
            data = ipsref.record_bytes(rec)
            t = rec[0] + delta
            if t < 0 or t + len(data) > TOP:
                continue
            # overlap with the host's own output -> order-dependent, no verdict (exact test: a sampled one
            # let a 65281-byte run through that covered five host bytes - false alarm under VERIF_SEED=1)
            if host_img.any_written(t, len(data)):
                return None
            img.write(t, data)
        if case.get("second_delta") is not None:
            for rec in records:
                t2 = rec[0] + case["second_delta"]
                if t2 < 0 or t2 + len(ipsref.record_bytes(rec)) > TOP:
                    continue
                img.write(t2, ipsref.record_bytes(rec))
        return img

    def observed_image(blocks: list[tuple[int, bytes]]) -> ipsref.Image:
        return ipsref.image_of_blocks([(a, d) for a, d in blocks if a >= 0 and a + len(d) <= TOP])

    # "PATCH, records, EOF": a file that ends at a record boundary without the EOF marker is not a
    # well-formed IPS patch either (only bytes *after* EOF are left without an accept/reject verdict)
    must_fail = klass in ("missing_header", "truncated_record", "missing_eof", "missing") or bool(o["fired"])
    if must_fail:
        if o["ok"]:
            why = "an injected read error fired" if o["fired"] else f"the stored file is not a well-formed IPS patch ({klass})"
            sig = "eio" if o["fired"] else klass + (":" + site if site != "-" else "")
            out.append(Violation("malformed_patch_accepted", sig, f"{why} but the assembly reported success ({len(o['blocks'])} blocks emitted)", case, detail))
        return out
    if klass == "well_formed":
        records = ipsref.parse(stored)
        hdr = 0x200 if front == "copier" else 0  # through the copier front end the records move up by the header
        all_deltas = [delta] + ([case["second_delta"]] if case.get("second_delta") is not None else [])
        outside = any(r[0] + d < 0 or r[0] + d + hdr + len(ipsref.record_bytes(r)) > (1 << 24) for r in records for d in all_deltas)
        if outside and (front or not o["ok"]):
            # a record outside the image: the statement says nothing about it, and a front end may rightly
            # refuse to write it.  (Through the in-memory API the other records are still judged below.)
            stats.bump("no_verdict(record lands outside the 24-bit image)")
            return out
        if outside:
            stats.bump("probe:record_outside_image_others_judged")
        want = expected_image(records)
        if want is None:
            # a record lands on addresses the host program writes as well: which of the two wins is a matter
            # of write order and gets no verdict - but everything *outside* the records' target ranges must
            # still be exactly what the host produces on its own
            stats.bump("no_verdict(damaged offsets overlap host output)")
            if o["ok"]:
                got_rest = observed_image(o["blocks"])
                host_rest = ipsref.image_of_blocks(base_twin["blocks"])
                for rec in records:
                    n_rec = len(ipsref.record_bytes(rec))
                    for d in all_deltas:
                        t = rec[0] + d
                        if n_rec and t >= 0 and t + n_rec <= TOP:
                            got_rest.write(t, bytes(n_rec))
                            host_rest.write(t, bytes(n_rec))
                stats.bump("probe:record_overlaps_host_output_rest_compared")
                if got_rest != host_rest:
                    out.append(Violation("host_output_disturbed", "outside_record_ranges", f"a record lands where the host program writes too; outside the records' target ranges the output (first) differs from the host program alone (second): {'; '.join(got_rest.diff(host_rest))}", case, detail))
            return out
        if not o["ok"]:
            sig = (o.get("exc") or {}).get("type") or "error_returned"
            out.append(Violation("well_formed_patch_rejected", sig, f"well-formed patch ({len(records)} records, {len(stored)} bytes, buffer size {bs}) but the assembly failed: {o.get('exc') or o.get('ret')}", case, detail))
            return out
        got = observed_image(o["blocks"])
        if got != want:
            sig = "rle" if any(r[1] == "rle" for r in records) else "plain"
            out.append(Violation("included_patch_effect_differs", sig, f"output image (first) differs from host output + records at offset+delta (second): {'; '.join(got.diff(want))}", case, detail))
            return out
        if o["labels"] != base_twin["labels"]:
            out.append(Violation("host_labels_changed", "labels", f"labels with the directive {o['labels'][:4]} differ from the host alone {base_twin['labels'][:4]}", case, detail))
        return out
    # missing_eof / trailing_bytes: the statement is silent on accept/reject; if accepted, blocks must equal the records present
    if o["ok"]:
        try:
            if klass == "trailing_bytes":
                records = ipsref.parse(stored, allow_trailing=True)
            else:
                records = ipsref.parse(stored + b"EOF")
        except ipsref.IpsFormatError:
            return out
        want = expected_image(records)
        if want is not None and observed_image(o["blocks"]) != want:
            out.append(Violation("accepted_patch_effect_differs", klass, f"file with {klass} was accepted but its effect differs from the records present: {'; '.join(observed_image(o['blocks']).diff(want))}", case, detail))
    return out


def knobs_for(rng: random.Random) -> dict[str, Any]:
    k: dict[str, Any] = {"bufsize": rng.choice([16, 17, 18, 19, 20, 21, 23, 27, 32, 33, 47, 64, 100, 512, 4096, 8192])}
    if rng.random() < 0.4:
        k["short_reads"] = rng.getrandbits(32)
        k["short_rate"] = rng.choice([0.2, 0.5, 0.9])
        if rng.random() < 0.4:
            k["pipe_like"] = ["ips_in"]  # the patch comes through something that delivers it in pieces (FIFO, pipe)
    if rng.random() < 0.25:
        k["warnings"] = "error"  # python -W error: a warning raised while reading the patch aborts the assembly
    return k


def sub_cases(case: dict[str, Any]) -> Iterator[dict[str, Any]]:
    rng = core.substream(case["seed"], "faults")
    krng = core.substream(case["seed"], "knobs")
    base = {k: v for k, v in case.items() if k not in ("type",)}
    base["type"] = "single"
    good = patch_bytes(case)
    # fault-free, several buffer sizes; sizes aimed at the EOF marker position so it straddles a refill
    eof_at = len(good) - 3
    aimed = [b for b in (eof_at + 1, eof_at + 2, (eof_at + 1) // 2, (eof_at + 2) // 2, (eof_at + 1) // 3, (eof_at + 2) // 3) if b >= 16]
    yield dict(base, knobs={})
    yield dict(base, knobs=knobs_for(krng), front_end="copier")
    yield dict(base, knobs={}, front_end="plain")
    for b in aimed[:3]:
        yield dict(base, knobs={"bufsize": b})
    for _ in range(4):
        yield dict(base, knobs=knobs_for(krng))
    # truncation: every offset for small patches, boundaries +-1 and seeded offsets for large ones
    n = len(good)
    if n <= 400:
        cuts = list(range(0, n))
    else:
        cuts_set = {0, 1, 4, 5, n - 1, n - 2, n - 3, n - 4}
        for a, b, _name in ipsref.record_spans(good):
            cuts_set |= {a, a + 1, b - 1, b, (a + b) // 2}
        cuts_set |= {rng.randrange(0, n) for _ in range(20)}
        cuts = sorted(c for c in cuts_set if 0 <= c < n)
        if len(cuts) > 160:
            # many records: keep the file's two ends and a seeded sample of the interior boundaries
            keep = set(cuts[:30] + cuts[-30:])
            keep |= set(rng.sample(cuts[30:-30], 100))
            cuts = sorted(keep)
    for at in cuts:
        yield dict(base, knobs=knobs_for(krng) if rng.random() < 0.5 else {}, damage={"kind": "truncate", "at": at})
    yield dict(base, knobs={}, damage={"kind": "drop_header"})
    for i in range(5):
        yield dict(base, knobs={}, damage={"kind": "garble_header", "at": i})
    for _ in range(8):
        yield dict(base, knobs=knobs_for(krng), damage={"kind": "flip", "at": rng.randrange(0, n), "mask": rng.choice([1, 0x80, 0xFF])})
    for _ in range(6):
        yield dict(base, knobs=knobs_for(krng), damage={"kind": rng.choice(["lose_chunk", "dup_chunk"]), "at": rng.randrange(0, n), "len": rng.choice([1, 2, 3, 5, 16, 100])})
    yield dict(base, knobs={}, missing=True)
    # EIO on each raw read of the patch (learn the reads from a fault-free run with a small buffer)
    kn = {"bufsize": rng.choice([16, 32, 64, 4096])}
    prog = host_with_directive(case)
    files = prog.all_files()
    files[(case.get("patch_path") or "p.ips").replace("$ROOT$/", "")] = good
    roles = prog.all_roles()
    roles[(case.get("patch_path") or "p.ips").replace("$ROOT$/", "")] = "ips_in"
    o = entries.execute_one(files, roles, {"entry": "string", "src": "main.s", "rom": prog.mapping}, kn, [])
    reads = [p for p in o["points"] if p[0] == "ips_in" and p[1] == "read"]
    if len(reads) > 24:
        reads = reads[:8] + rng.sample(reads[8:-4], 8) + reads[-4:]
    for role, op, nth in reads:
        yield dict(base, knobs=kn, faults=[{"op": "read", "role": "ips_in", "nth": nth, "errno": "EIO"}])
    yield dict(base, knobs=kn, faults=[{"op": "open", "role": "ips_in", "nth": 0, "errno": rng.choice(["EACCES", "EISDIR"])}])


def run_case(case: dict[str, Any], stats: Stats) -> list[Violation]:
    if case.get("type") == "single":
        return run_single(case, stats)
    found: list[Violation] = []
    seen: set[str] = set()
    for sub in sub_cases(case):
        if runner_should_stop():
            break
        for v in run_single(sub, stats):
            key = v.klass + "|" + v.sig
            if key not in seen:
                seen.add(key)
                found.append(v)
        if len(found) >= 6:
            break
    return found


def sample_of(case: dict[str, Any]) -> Any:
    prog = progen.Prog.from_record(case["prog"])
    c = {k: v for k, v in case.items() if k not in ("prog",)}
    c["host_main.s"] = progen.render(host_with_directive(case).root)
    c["mapping"] = prog.mapping
    return core.to_jsonable(c)


def shrink_candidates(case: dict[str, Any]) -> Iterator[dict[str, Any]]:
    if case.get("type") != "single":
        return
    recs = case["records"]
    for i in range(len(recs)):
        c = dict(case)
        c["records"] = recs[:i] + recs[i + 1 :]
        if c.get("damage") and c["damage"]["kind"] == "truncate":
            continue  # offsets would no longer mean the same thing
        yield c
    if case.get("knobs"):
        for k in list(case["knobs"]):
            if k == "short_rate":
                continue
            c = dict(case)
            c["knobs"] = {a: b for a, b in case["knobs"].items() if a != k}
            yield c
        bs = case["knobs"].get("bufsize")
        if bs and bs > 16:
            for b2 in (16, bs // 2):
                c = dict(case)
                c["knobs"] = dict(case["knobs"], bufsize=b2)
                yield c
    if case.get("via_writer"):
        c = dict(case)
        c["via_writer"] = False
        yield c
    if case.get("second_delta") is not None:
        yield dict(case, second_delta=None)
    if case.get("front_end"):
        yield dict(case, front_end=None)
    if case.get("patch_path") not in (None, "p.ips"):
        yield dict(case, patch_path="p.ips")
    if case.get("delta") and not case.get("damage"):
        c = dict(case)
        c["delta"] = 0
        c["delta_form"] = "lit"
        yield c
    for i, r in enumerate(recs):
        if r[1] == "plain" and r[2] > 1 and not case.get("damage"):
            for n2 in (1, r[2] // 2):
                c = dict(case)
                c["records"] = recs[:i] + [(r[0], r[1], n2, r[3])] + recs[i + 1 :]
                yield c
    host = progen.Prog.from_record(case["prog"])
    if case["slot"]["ctx"] == "top" and case["slot"]["file"] == "main.s":
        # statement removal keeps top-level slot positions valid only when removing after the slot
        for p in progen.iter_removals(host):
            if len(p.root) < len(host.root) and case["slot"]["pos"] <= len(p.root) and case.get("delta_form") not in ("const", "const_reassigned", "const_signed", "macro_arg"):
                c = dict(case)
                c["prog"] = p.to_record()
                c["slot"] = dict(case["slot"], pos=min(case["slot"]["pos"], len(p.root)))
                yield c


def evidence(total: Stats, tier: str) -> dict[str, Any]:
    return {
        "components_real": ["a816 parser/codegen/IncludeIpsNode/Program.emit", "CPython io.BufferedReader (real, seeded buffer size)", "kernel tmpfs", "a816.writers.IPSWriter for round-trip patches"],
        "components_stubbed": ["raw file layer (SimRaw: short reads, EIO at the k-th read, open errors)", "user Writer (RecordingWriter)"],
        "reference_models": ["sim.ipsref: encoder for third-party-style patches, strict reader/classifier, applier"],
        "exhaustive_within_run": "EOF at every byte offset of every patch of <= 400 bytes; EIO at every raw read (sampled above 24 reads)",
        "simulated_time": "no clock in this system; reported as I/O operations simulated",
    }
