"""C12 - file and command-line front ends agree with the in-memory assembler.

Whole-program simulation: real cli_main (in-process), Program.assemble,
assemble_as_patch, exports_symbol_file, real writers, real buffered I/O on the
simulated raw layer, inside a sandboxed file system.  Fault dimension: benign
perturbations only (buffer sizes, short raw I/O, stale longer output file,
path style, argv order).  Oracle: pristine-fork in-memory twin.
"""
from __future__ import annotations

import os
import re
import subprocess
from typing import Any, Iterator

from .. import core, entries, ipsref, progen, simenv
from ..runner import Stats, Violation
from ..runner import should_stop as runner_should_stop

PROP = "C12"
LEVEL = "exploration"
RULE = (
    "programs from sim.progen valid under a seeded mapping (low / low2 / high) referencing 0-3 -D names; for every program the "
    "lattice format{ips,sfc} x copier-header{off,on} (x {low,low2} for programs confined to banks 0x80-0xCF) is run through the "
    "CLI, plus assemble_as_patch (both copier settings), assemble and exports_symbol_file; each execution draws benign "
    "perturbations (buffer size, short raw reads/writes, stale longer output, absolute/relative paths, argv order). Only programs "
    "whose in-memory twin succeeds are judged. distinct = (entry, format, mapping, copier, knob vector, feature signature)."
)
ASSUMPTIONS = [
    "reference = the same source through assemble_string_with_emitter on a fresh Program in a pristine fork, rom_type set to the mapping, each -D name added to the top scope as an integer",
    "low2 is judged against the low mapping (programs confined to banks 0x80-0xCF assemble to the same bytes and offsets through low's mirror range)",
    "-D values are integer literals (decimal, 0x, 0b)",
    "symbol-file lines are parsed leniently: '<hex bank>:<hex offset> <name>'; additional lines carry no verdict",
]
REQUIRED_REACH = [
    "probe:lattice:cli:ips:copier",
    "probe:lattice:cli:sfc:plain",
    "probe:mapping:low2",
    "probe:mapping:high",
    "probe:defines_used",
    "probe:stale_output_present",
    "probe:symfile_checked",
    "probe:true_subprocess_cli",
]

SYM_LINE = re.compile(r"^\s*([0-9a-fA-F]+)\s*:\s*([0-9a-fA-F]+)\s+(\S+)\s*$")


def gen_case(cseed: int, tier: str) -> dict[str, Any]:
    w = core.substream(cseed, "workload")
    mapping = w.choice(["low", "low2", "high"])
    feats = {x for x in progen.ALL_FEATURES if w.random() < 0.5}
    feats |= {"data"}
    feats -= {"map", "code_lookup"} if w.random() < 0.8 else set()
    feats.discard("map")  # -m is meaningless once the program installs its own mapping
    if w.random() < 0.85:
        feats.discard("far_banks")
    if w.random() < 0.08:
        feats.add("big_incbin")
    if mapping == "low2" and w.random() < 0.25:
        feats.add("low2_upper")  # banks 0xD0-0xFF: only the low2 mapping has them (no cross-check against low)
    defines: list[tuple[str, str]] = []
    if w.random() < 0.7:
        feats.add("defines")
        # every spelling int(value, 0) - what the command line documents as KEY=VALUE - accepts
        pool = [
            ("DEF0", w.choice(["0x12", "7", "0b101", "4660", "0xABCD", "0X12", "0B101", "4_660", "0o22", "+7", "0xab_cd", "0XAB"])),
            ("DEF1", w.choice(["0", "1", "0", "1", "0x0", "+1", "0B1", "00"])),
            ("DEF2", w.choice(["1", "2", "3", "4", "0b11", "0X2", "+3", "0o4"])),
        ]
        defines = pool[: w.randrange(1, 4)]
    else:
        feats.discard("defines")
    prog = progen.gen_program(w, mapping, feats, defines, size=w.choice([6, 10, 14, 18]) if w.random() < 0.96 else w.choice([80, 160, 400, 900, 1500]))
    return {"type": "base", "prog": prog.to_record(), "seed": cseed}


def plan(tier: str) -> dict[str, Any]:
    return {"fixed": [], "seeded": 640 if tier == "quick" else 0, "chunk": 4, "wall_cap_s": 240, "minimise_s": 30}


def knobs_for(rng: Any) -> dict[str, Any]:
    k: dict[str, Any] = {}
    r = rng.random()
    if r < 0.75:
        k["bufsize"] = rng.choice([16, 17, 29, 64, 100, 512, 4096, 8192])
    if rng.random() < 0.4:
        k["short_reads"] = rng.getrandbits(32)
    if rng.random() < 0.4:
        k["short_writes"] = rng.getrandbits(32)
    if rng.random() < 0.3:
        # what the locale says about text files opened without an explicit encoding
        k["locale_encoding"] = rng.choice(["latin-1", "cp1252", "ascii", "utf-16", "utf-8"])
    if rng.random() < 0.2:
        k["warnings"] = "error"  # python -W error
    return k


def executions(case: dict[str, Any]) -> Iterator[dict[str, Any]]:
    """The single executions a base case expands to (each is a replayable case)."""
    prog = progen.Prog.from_record(case["prog"])
    rng = core.substream(case["seed"], "knobs")
    defines = [list(d) for d in prog.defines]
    mappings = [prog.mapping] if prog.mapping != "low2" else (["low2", "low"] if "low2_upper" not in prog.features else ["low2"])
    base = {"type": "single", "prog": case["prog"]}

    def env() -> dict[str, Any]:
        return {
            "knobs": knobs_for(rng),
            "stale": rng.getrandbits(32) if rng.random() < 0.5 else None,
            "abs_paths": rng.random() < 0.3,
            "positional_first": rng.random() < 0.6,
            "argv_order": rng.sample(range(6), 6),
            "argv_style": rng.getrandbits(16) if rng.random() < 0.5 else None,
            "flags": [f for f in ("dump_symbols", "verbose") if rng.random() < 0.25],
            "out_subdir": rng.random() < 0.2,
            "src_subdir": rng.random() < 0.15,
            "crlf": rng.random() < 0.15,
            "padded": rng.getrandbits(32) if rng.random() < 0.06 else None,
            "src_name": rng.randrange(6) if rng.random() < 0.15 else None,
            "out_name": rng.randrange(6) if rng.random() < 0.15 else None,
        }

    for m in mappings:
        for fmt in ("ips", "sfc"):
            for copier in (False, True):
                spec = {"entry": "cli", "src": "main.s", "format": fmt, "mapping": m, "copier": copier, "out": "out." + fmt, "defines": defines}
                yield dict(base, spec=spec, **env())
        for copier in (False, True):
            spec = {"entry": "patch", "src": "main.s", "mapping": m, "copier": copier, "out": "out.ips", "defines": defines, "symfile": "out.sym"}
            yield dict(base, spec=spec, **env())
        spec = {"entry": "assemble", "src": "main.s", "rom": m, "out": "out.sfc", "defines": defines, "symfile": "out.sym"}
        yield dict(base, spec=spec, **env())
    # default-option paths: no -m / no mapping argument at all (must behave as low); no -o (a.out); no -f (ips)
    if prog.mapping == "low":
        yield dict(base, spec={"entry": "cli", "src": "main.s", "out": "a.out", "no_output_opt": True, "defines": defines, "verbose": True, "dump_symbols": True}, **env())
        yield dict(base, spec={"entry": "cli", "src": "main.s", "out": "out.ips", "defines": defines}, **env())
        yield dict(base, spec={"entry": "patch", "src": "main.s", "out": "out.ips", "defines": defines}, **env())


def twin_for(prog: progen.Prog, mapping: str) -> dict[str, Any]:
    from .c14 import twin_of

    ref = mapping if mapping != "low2" or "low2_upper" in prog.features else "low"
    return twin_of(prog.all_files(), prog.all_roles(), ref, [list(d) for d in prog.defines])


def check_symfile(text: str, prog: progen.Prog, twin: dict[str, Any], timg: ipsref.Image) -> list[tuple[str, str]]:
    """Returns (sig, msg) problems.

    Every label *definition* made outside loop iterations must appear once: for each label name all
    of whose definition sites lie outside .for bodies (progen knows), the multiset of (bank, offset)
    lines carrying that name must equal the multiset of that name's values in the reference run.
    """
    problems: list[tuple[str, str]] = []
    lines: dict[str, list[tuple[int, int]]] = {}
    for line in text.splitlines():
        m = SYM_LINE.match(line)
        if m:
            lines.setdefault(m.group(3), []).append((int(m.group(1), 16), int(m.group(2), 16)))
    twin_labels: dict[str, list[int]] = {}
    for name, value in twin["labels"] or []:
        twin_labels.setdefault(name, []).append(value)
    table = progen.decode_label_table(prog, timg) or {}
    bare_table = {k.split(".")[-1]: v for k, v in table.items()}
    static = progen.static_label_counts(prog)
    only_outside = {n for n in prog.symfile_label_names() if all(m is None and o for nn, o, m in prog.label_sites if nn == n)}
    for name in prog.symfile_label_names():
        values = twin_labels.get(name, [])
        if name in only_outside and name in static and len(values) != static[name]:
            # known from the program text alone: this many assembled definitions outside loops and macros
            problems.append(("label_definitions_lost", f"label {name} is defined {static[name]} time(s) by assembled statements outside loops and macro bodies, but get_all_labels() reports {len(values)} and the symbol file has {len(lines.get(name, []))} line(s)"))
            continue
        if len(values) == 1 and name in bare_table and bare_table[name] != values[0] & 0xFFFFFF:
            problems.append(("label_value", f"label {name}: get_all_labels() says {values[0]:#x} but '.dl {name}' emitted {bare_table[name]:#x}"))
            continue
        want = sorted(((v >> 16) & 0xFF, v & 0xFFFF) for v in values)
        got = sorted(lines.get(name, []))
        if len(got) != len(want):
            problems.append(("label_count", f"label {name} is defined {len(want)} time(s) outside loops but appears on {len(got)} line(s) of the symbol file"))
        elif got != want:
            problems.append(("label_bank_offset", f"label {name}: definitions {[f'{b:x}:{o:x}' for b, o in want]} exported as {[f'{b:x}:{o:x}' for b, o in got]}"))
    # twin labels: 'X:' and 'X_tw:' are defined at the same spot, so they are exported with the same address
    # whatever else carries the name X (progen re-binds some X with '=' later in the same scope)
    names = set(prog.symfile_label_names())
    for name in sorted(lines):
        tw = lines.get(name + "_tw")
        if tw is not None and name in names and sorted(lines[name]) != sorted(tw):
            problems.append(("label_twin", f"labels {name} and {name}_tw are defined at the same place but exported as {[f'{b:x}:{o:x}' for b, o in lines[name]]} and {[f'{b:x}:{o:x}' for b, o in tw]}"))
    return problems


def run_single(case: dict[str, Any], stats: Stats) -> list[Violation]:
    prog = progen.Prog.from_record(case["prog"])
    spec = dict(case["spec"])
    spec["abs_paths"] = bool(case.get("abs_paths"))
    spec["positional_first"] = bool(case.get("positional_first", True))
    if case.get("argv_order"):
        spec["argv_order"] = case["argv_order"]
    if case.get("argv_style") is not None:
        spec["argv_style"] = case["argv_style"]
    for flag in case.get("flags") or []:
        spec[flag] = True
    out_role = "out_ips" if spec["out"].endswith((".ips", "a.out")) else "out_sfc"
    if case.get("out_name") is not None and not spec.get("no_output_opt"):
        # other names a user gives the output: the extension says nothing about the format
        spec["out"] = ["Out.IPS", "rom.smc", "patch file.bin", "out", "o.ips.sfc", "caf\u00e9.ips"][case["out_name"] % 6]
    if case.get("out_subdir") and not spec.get("no_output_opt"):
        spec["out"] = "out dir/" + spec["out"]
    mapping = spec.get("mapping") or spec.get("rom") or "low"
    twin = twin_for(prog, mapping)
    if not twin["ok"]:
        stats.bump("generator_discard(twin failed)")
        return []
    files = prog.all_files()
    roles = prog.all_roles()
    roles.update({"out.ips": "out_ips", "out.sfc": "out_sfc", "out.sym": "symfile", "a.out": "out_ips", "out dir/out.ips": "out_ips", "out dir/out.sfc": "out_sfc"})
    roles[spec["out"]] = out_role
    if spec["out"].startswith("out dir/"):
        files["out dir/.keep"] = b""
    if case.get("crlf"):
        # stored text files with CR LF line ends: text-mode reading must give the same program
        for name in list(files):
            if name.endswith((".s", ".tbl")):
                files[name] = files[name].replace(b"\r\n", b"\n").replace(b"\n", b"\r\n")
        stats.bump("probe:crlf_text_files")
    if case.get("padded"):
        # a long comment full of multi-byte characters after the first line: the source is longer than any
        # read buffer / chunk (4, 8, 16, 64 KiB), and characters straddle those boundaries
        import random as _r0

        pr = _r0.Random(case["padded"])
        first, nl, rest = files["main.s"].partition(b"\n")
        pad = "".join("; " + "".join(pr.choice("\u65e5\u672c\u8a9e\u00e9x ") for _ in range(pr.randrange(30, 90))) + "\n" for _ in range(pr.choice([60, 120, 400, 900])))
        files["main.s"] = first + nl + pad.encode("utf-8") + rest
        stats.bump("probe:long_source_with_multibyte_characters")
    if case.get("src_subdir"):
        # the main source lives in a sub-directory; its .include/.incbin/.table paths stay relative to the cwd
        files["src dir/main.s"] = files.pop("main.s")
        roles["src dir/main.s"] = "source"
        spec["src"] = "src dir/main.s"
    if case.get("src_name") is not None and not case.get("src_subdir"):
        # other names for the main source (extension, case, spaces, non-ASCII, several dots, none)
        newname = ["prog.asm", "\u00fcn\u00ef code.s", "main", "MAIN.S", "game.v1.2.s", "main.s.bak"][case["src_name"] % 6]
        files[newname] = files.pop("main.s")
        roles[newname] = "source"
        spec["src"] = newname
    if case.get("stale") is not None:
        import random as _r

        files[spec["out"]] = _r.Random(case["stale"]).randbytes(4096 + case["stale"] % 5000)
        stats.bump("probe:stale_output_present")
    o = entries.execute_one(files, roles, spec, case.get("knobs") or {}, [])
    stats.add_outcome(o)
    entry = spec["entry"]
    fmt = spec.get("format") or ("sfc" if entry == "assemble" else "ips")  # never from the file name
    copier = bool(spec.get("copier"))
    stats.bump(f"probe:lattice:{entry}:{fmt}:{'copier' if copier else 'plain'}")
    stats.bump(f"probe:mapping:{mapping}")
    if prog.defines and any(d[0] in prog.source_files()["main.s"].decode() for d in prog.defines):
        stats.bump("probe:defines_used")
    kn = case.get("knobs") or {}
    stats.state(entry, fmt, mapping, copier, kn.get("bufsize"), "sr" in str(sorted(kn)), bool(case.get("stale")), bool(case.get("abs_paths")), prog.features)
    detail = {"outcome": {k: o.get(k) for k in ("kind", "ret", "exc", "argv", "log_tail", "stdout")}}
    out: list[Violation] = []
    base_sig = f"{entry}|{fmt}|{mapping}"
    if not o["ok"]:
        what = o.get("exc") or o.get("ret")
        out.append(Violation("front_end_fails_where_in_memory_succeeds", f"{base_sig}|{(o.get('exc') or {}).get('type', o.get('ret'))}", f"{entry} ({fmt}, -m {mapping}, copier={copier}, defines={prog.defines}) reported failure ({o['kind']}: {what}) but the in-memory API assembles the same source", case, detail))
        return out
    timg = ipsref.image_of_blocks(twin["blocks"])
    data = entries.get_out(o, spec["out"])
    if data is None and spec.get("no_output_opt"):
        # the default output *name* is not part of the statement: no verdict if it is not "a.out"
        stats.bump("no_verdict(default output file name is not a.out)")
        return out
    if data is None:
        out.append(Violation("output_missing", base_sig, f"{entry}: success but {spec['out']} does not exist", case, detail))
        return out
    if fmt == "ips":
        try:
            recs = ipsref.parse(data)
        except ipsref.IpsFormatError as e:
            out.append(Violation("ips_output_malformed", f"{base_sig}|{e.klass}", f"{entry}: {spec['out']} is not a well-formed IPS file: {e}", case, detail))
            return out
        got = ipsref.apply_records(recs)
        want = ipsref.image_of_blocks(twin["blocks"], 0x200 if copier else 0)
        if got != want:
            # is it exactly the un-shifted / wrongly shifted image?
            sig = "bytes"
            for sh in (0, 0x200, 0x100, -0x200):
                if got == ipsref.image_of_blocks(twin["blocks"], sh):
                    sig = f"shift{sh:#x}"
            out.append(Violation("ips_differs_from_in_memory", f"{base_sig}|copier={copier}|{sig}", f"{entry}: IPS applied to an empty image (first) differs from the in-memory blocks{' shifted by 0x200' if copier else ''} (second): {'; '.join(got.diff(want))}", case, detail))
    else:
        if data != timg.flat():
            got = ipsref.image_of_flat(data)
            out.append(Violation("sfc_differs_from_in_memory", base_sig, f"{entry}: SFC image (first, {len(data)} bytes) differs from the in-memory blocks rendered flat (second, {len(timg.flat())} bytes): {'; '.join(got.diff(ipsref.image_of_flat(timg.flat())))}", case, detail))
    if spec.get("symfile"):
        sym = entries.get_out(o, spec["symfile"])
        if sym is None:
            out.append(Violation("symfile_missing", base_sig, "exports_symbol_file wrote nothing", case, detail))
        else:
            stats.bump("probe:symfile_checked")
            for sig, msg in check_symfile(sym.decode("utf-8", errors="replace"), prog, twin, timg)[:2]:
                out.append(Violation("symfile_wrong", sig, msg, case, detail))
    # true process boundary for a sample of CLI executions
    if entry == "cli" and case.get("subprocess"):
        out += run_subprocess(case, prog, spec, files, o, stats)
    return out


def run_subprocess(case: dict[str, Any], prog: progen.Prog, spec: dict[str, Any], files: dict[str, bytes], o: dict[str, Any], stats: Stats) -> list[Violation]:
    root = simenv.new_sandbox()
    try:
        simenv.populate(root, files)
        argv = entries.build_argv(spec, root)[1:]
        env = dict(os.environ, PYTHONPATH=core.REPO, PYTHONDONTWRITEBYTECODE="1", PYTHONHASHSEED="0")
        try:
            p = subprocess.run(["/venv/bin/python", "-B", "-m", "a816.cli"] + argv, cwd=root, env=env, capture_output=True, timeout=60)
        except subprocess.TimeoutExpired:
            raise core.ChildTimeout("true-subprocess CLI run exceeded 60 s")
        stats.bump("probe:true_subprocess_cli")
        data = simenv.read_real(os.path.join(root, spec["out"]))
    finally:
        simenv.drop_sandbox(root)
    inproc = entries.get_out(o, spec["out"])
    status_inproc = 0 if o["ok"] else 1
    if (p.returncode == 0) != (status_inproc == 0) or data != inproc:
        return [
            Violation(
                "in_process_cli_stub_disagrees_with_real_process",
                "cli",
                f"python -m a816.cli exit={p.returncode}, {len(data or b'')} output bytes; in-process cli_main ok={o['ok']}, {len(inproc or b'')} bytes; stderr tail: {p.stderr[-300:]!r}",
                case,
            )
        ]
    return []


def run_case(case: dict[str, Any], stats: Stats) -> list[Violation]:
    if case.get("type") == "single":
        return run_single(case, stats)
    prog = progen.Prog.from_record(case["prog"])
    twin = twin_for(prog, prog.mapping)
    stats.add_outcome(twin)
    if not twin["ok"]:
        stats.bump("generator_discard(twin failed)")
        return []
    found: list[Violation] = []
    seen: set[str] = set()
    if prog.mapping == "low2" and "low2_upper" not in prog.features:
        # if the in-memory API accepts low_rom_2 that run must agree with the low-mapping reference
        from .c14 import twin_of

        t2 = twin_of(prog.all_files(), prog.all_roles(), "low2", [list(d) for d in prog.defines])
        stats.add_outcome(t2)
        if t2["ok"] and ipsref.image_of_blocks(t2["blocks"]) != ipsref.image_of_blocks(twin["blocks"]):
            d = ipsref.image_of_blocks(t2["blocks"]).diff(ipsref.image_of_blocks(twin["blocks"]))
            single = {"type": "single", "prog": case["prog"], "spec": {"entry": "patch", "src": "main.s", "mapping": "low2", "out": "out.ips", "defines": [list(x) for x in prog.defines]}}
            found.append(Violation("low2_in_memory_differs_from_low", "blocks", "in-memory assembly under low_rom_2 (first) differs from low_rom through its mirror range (second): " + "; ".join(d), single))
    by_cfg: dict[tuple[str, str], dict[bool, Any]] = {}
    sub_rng = core.substream(case["seed"], "subprocess")
    for i, sub in enumerate(executions(case)):
        if runner_should_stop():
            break
        if sub["spec"]["entry"] == "cli" and sub_rng.random() < 0.03:
            sub["subprocess"] = True
        for v in run_single(sub, stats):
            key = v.klass + "|" + v.sig
            if key not in seen:
                seen.add(key)
                found.append(v)
    return found


def sample_of(case: dict[str, Any]) -> Any:
    if case.get("type") == "single":
        c = {k: v for k, v in case.items() if k != "prog"}
        prog = progen.Prog.from_record(case["prog"])
        c["main.s"] = progen.render(prog.root)
        return core.to_jsonable(c)
    prog = progen.Prog.from_record(case["prog"])
    return {"type": "base", "mapping": prog.mapping, "defines": prog.defines, "features": prog.features, "main.s": progen.render(prog.root)}


def shrink_candidates(case: dict[str, Any]) -> Iterator[dict[str, Any]]:
    if case.get("type") != "single":
        return
    for key, val in (("stale", None), ("abs_paths", False), ("subprocess", False), ("positional_first", True), ("argv_order", None), ("argv_style", None), ("flags", []), ("out_subdir", False), ("src_subdir", False), ("crlf", False), ("padded", None), ("src_name", None), ("out_name", None)):
        if case.get(key) not in (val, None):
            c = dict(case)
            c[key] = val
            yield c
    if case.get("knobs"):
        for k in list(case["knobs"]):
            c = dict(case)
            c["knobs"] = {a: b for a, b in case["knobs"].items() if a != k}
            yield c
    prog = progen.Prog.from_record(case["prog"])
    for p in progen.iter_removals(prog):
        c = dict(case)
        c["prog"] = p.to_record()
        yield c
    if prog.defines:
        text = b"\n".join(prog.source_files().values()).decode("utf-8", "replace")
        for i in range(len(prog.defines)):
            if prog.defines[i][0] in text:
                continue  # still referenced: dropping it would change which statements are assembled
            p = progen.clone(prog)
            p.defines = prog.defines[:i] + prog.defines[i + 1 :]
            c = dict(case)
            c["prog"] = p.to_record()
            c["spec"] = dict(case["spec"], defines=[list(d) for d in p.defines])
            yield c


def evidence(total: Stats, tier: str) -> dict[str, Any]:
    return {
        "components_real": ["a816 (all of a816/ and script/)", "a816.cli.cli_main + argparse", "logging", "CPython buffered/text I/O", "kernel tmpfs", "python -m a816.cli as a true subprocess for a sample"],
        "components_stubbed": ["raw file layer (SimRaw)", "sys.argv / SystemExit capture for the in-process CLI", "stdout/stderr"],
        "reference_models": ["pristine-fork in-memory twin", "sim.ipsref", "independent LoROM/HiROM offset arithmetic for the trailing label table (sim.progen.phys)"],
        "lattice": "format{ips,sfc} x mapping{low,low2,high} x copier{off,on} x defines{none,1..3 literals}; the 4 format x copier points are covered for every program (x2 mappings for low2 programs)",
        "simulated_time": "no clock in this system; reported as I/O operations simulated",
    }
