"""C11 - IPS output is well formed and patches exactly the written blocks.

System under simulation: the real a816.writers.IPSWriter appending to a
caller-supplied stream (BytesIO, or a real BufferedWriter over the simulated
raw file).  Generated: histories of (address, length) writes; faults: the
k-th raw write fails (ENOSPC/EIO); benign: buffer size, short raw writes.
Oracle: independent IPS reader/applier (sim.ipsref) vs the model
"blocks applied in write order" - bytes and the set of written offsets.
"""
from __future__ import annotations

import io
import os
import random
from typing import Any

from .. import core, ipsref, simenv
from ..runner import Stats, Violation
from ..stepclock import run_clocked

STEP_BUDGET = 2_000_000

PROP = "C11"
LEVEL = "exploration"
RULE = (
    "histories begin(); write_block(bytes,addr) x n (n<=6); end() on the real IPSWriter; lengths from the boundary family "
    "{0,1,2,65534..65537,2*65535-1..+1,3*65535+-1,small,<=200000}, addresses from {0,1,0x1ff,0x200,bank edges,0x454F46-d "
    "(d small or k*65535 so a split slice lands on it),2^24-len+-1,2^24-0x200+-1,>=2^24,negative}; stream in {BytesIO, "
    "BufferedWriter(seeded size) over the simulated raw file}; optional fault = k-th raw write fails. A case is non-trivial "
    "when it wrote at least one non-empty block; distinct = distinct (copier flag, stream kind, per-op (length class, address "
    "class), fault class) tuples."
)
ASSUMPTIONS = [
    "a 'standard IPS patcher' is modelled by sim/ipsref.py: PATCH, records (3-byte BE offset, 2-byte BE size, data | size 0 => 2-byte run + 1 byte value), first offset field equal to 'EOF' ends the patch",
    "streams guarantee full writes (BytesIO / BufferedWriter); short counts are injected only below the BufferedWriter",
    "block contents are seeded random bytes, so every image byte is attributable to one write with overwhelming probability",
]
REQUIRED_REACH = ["fault_fired_inside_writer_call", "probe:multi_slice_block", "probe:slice_starts_at_eof_offset", "benign:short_write:out_ips"]

TOP = 1 << 24
EOFO = ipsref.EOF_OFFSET
BOUNDARY_LENGTHS = [0, 1, 2, 3, 65534, 65535, 65536, 65537, 2 * 65535 - 1, 2 * 65535, 2 * 65535 + 1, 3 * 65535 - 1, 3 * 65535, 3 * 65535 + 1]


def len_class(n: int) -> str:
    if n in BOUNDARY_LENGTHS:
        return str(n)
    if n < 256:
        return "small"
    if n < 65534:
        return "mid"
    return "big"


def addr_class(a: int, n: int, shift: int) -> str:
    s = a + shift
    if a < 0 or s < 0:
        # a negative block address is not an address at all: refusing it and (with the copier
        # shift) writing it at a+0x200 are both accepted; if accepted the image must still match
        return "negative"
    if s >= TOP:
        return ">=2^24"
    if s == EOFO:
        return "eof"
    if n and s < EOFO < s + n:
        if (EOFO - s) % 65535 == 0:
            return "slice_on_eof"
        return "contains_eof"
    if s + n > TOP:
        return "crosses_2^24"
    if s + n == TOP:
        return "ends_at_2^24"
    if s < 0x400:
        return "low"
    return "other"


def gen_addr(rng: random.Random, n: int, shift: int) -> int:
    r = rng.random()
    if r < 0.20:
        return rng.choice([0, 1, 0x1FF, 0x200, 0x7FFF, 0x8000, 0xFFFF, 0x10000, 0x1FFFF])
    if r < 0.40:
        # around the offset that reads as the EOF marker
        k = rng.choice([0, 0, 1, 2, 3])
        d = rng.choice([0, 0, 0, 1, -1, 2, 5, 0x200, -0x200])
        return EOFO - shift - k * 65535 + d
    if r < 0.55:
        return TOP - shift - n + rng.choice([-2, -1, 0, 0, 1, 2])
    if r < 0.62:
        return TOP - shift + rng.choice([-2, -1, 0, 1, 0x200, 0x10000, 1 << 24])
    if r < 0.67:
        return rng.choice([-1, -2, -0x200, -0x201, -65536])
    if r < 0.75:
        return TOP - 0x200 + rng.choice([-1, 0, 1])
    return rng.randrange(0, TOP - 0x300)


# lengths a chunking / buffering implementation reacts to: powers of two, their multiples and neighbours,
# also as the last piece of a split block
ROUND_LENGTHS = [255, 256, 257, 4095, 4096, 4097, 8191, 8192, 8193, 16383, 16384, 16385, 32767, 32768, 32769, 49152, 65535 + 4096, 65535 + 16384, 65535 + 32768, 131072, 2 * 65535 + 16384]


def gen_len(rng: random.Random, allow_big: bool) -> int:
    r = rng.random()
    if r < 0.08:
        return rng.choice(ROUND_LENGTHS if allow_big else ROUND_LENGTHS[:15])
    if r < 0.35:
        return rng.choice(BOUNDARY_LENGTHS if allow_big else BOUNDARY_LENGTHS[:4])
    if r < 0.75:
        return rng.randrange(1, 40)
    if r < 0.90 or not allow_big:
        return rng.randrange(40, 3000)
    return rng.randrange(60000, 200000)


def block_bytes(op: dict[str, Any]) -> bytes:
    """Seeded content; fill seeds with (fill % 5 == 0) give a block of one repeated byte and
    (fill % 5 == 1) a block made of a few long runs - what a writer that emits run-length records,
    or treats 'all the same byte' specially, reacts to."""
    fill, n = op["fill"], op["len"]
    if fill % 5 == 0:
        return bytes([(fill >> 8) & 0xFF]) * n
    if fill % 5 == 1 and n > 4:
        rng = random.Random(fill)
        out = bytearray()
        while len(out) < n:
            out += bytes([rng.randrange(256)]) * rng.choice([1, 2, 7, 8, 9, 64, 300, 70000])
        return bytes(out[:n])
    data = bytearray(random.Random(fill).randbytes(n))
    if fill % 5 == 3 and n >= 4:
        # what real ROM data ends (or starts) with: padding made of 0x00 and 0xFF runs, terminators, masks
        rng = random.Random(fill ^ 0xA5)
        pad = bytearray()
        want = min(n, rng.choice([2, 9, 10, 20, 64, 300]))
        while len(pad) < want:
            pad += bytes([rng.choice([0x00, 0xFF])]) * rng.choice([1, 1, 2, 8, 9, 16, 40])
        pad = pad[:want]
        if rng.random() < 0.8:
            data[n - want :] = pad
        else:
            data[:want] = pad
    if fill % 5 == 2 and n >= 5:
        # the format's own magic strings inside the data (start, end, somewhere): data is data
        rng = random.Random(fill ^ 0x5A)
        for magic in rng.sample([b"EOF", b"PATCH", b"EOF\x00\x00", b"\x45\x4f\x46\x45\x4f\x46", b"PATCHEOF"], 2):
            if len(magic) <= n:
                pos = rng.choice([0, n - len(magic), rng.randrange(0, n - len(magic) + 1)])
                data[pos : pos + len(magic)] = magic
    return bytes(data)


def gen_case(cseed: int, tier: str) -> dict[str, Any]:
    w = core.substream(cseed, "workload")
    k = core.substream(cseed, "knobs")
    f = core.substream(cseed, "faults")
    header = w.random() < 0.5
    shift = 0x200 if header else 0
    n_ops = w.choice([0, 1, 1, 2, 2, 3, 3, 4, 5, 6])
    ops = []
    big_left = 2
    for i in range(n_ops):
        n = gen_len(w, big_left > 0)
        if n >= 60000:
            big_left -= 1
        if ops and w.random() < 0.15:
            # the very same block again (same address, same bytes) - typically after an overlapping write
            ops.append(dict(w.choice(ops)))
            continue
        if ops and w.random() < 0.3:
            # overlap / adjacency / repeat relative to an earlier block
            prev = w.choice(ops)
            a = prev["addr"] + w.choice([0, prev["len"], prev["len"] - 1, -n, 1 - n, prev["len"] // 2, prev["len"] + 1, prev["len"] + 2, prev["len"] + 4, prev["len"] + 5, -n - 1, -n - 3])  # overlapping, adjacent, or a few bytes apart
        else:
            a = gen_addr(w, n, shift)
        ops.append({"addr": a, "len": n, "fill": w.getrandbits(32)})
    # histories are judged up to the first refused block: keep most unrepresentable ones last
    stream = k.choice(["bytesio", "file", "file"])
    case: dict[str, Any] = {
        "header": header,
        "ops": ops,
        "stream": stream,
        "bufsize": k.choice([16, 17, 23, 32, 61, 64, 512, 4096, 8192, 0]),
        "short_writes": k.getrandbits(32) if k.random() < 0.5 else None,
        "fault": None,
    }
    if k.random() < 0.15:
        # the embedding application has configured logging (what --verbose / basicConfig(level=DEBUG) does)
        case["log_level"] = k.choice([10, 10, 20, 0])
    if w.random() < 0.3:
        by = []
        for _ in range(w.randrange(1, 4)):
            if ops and w.random() < 0.5:
                src = w.choice(ops)
                if 0 <= src["addr"] < TOP - 0x10400 and src["len"] < 70000 and not (src["addr"] <= EOFO + 0x200 and EOFO - 0x200 - 3 * 65535 <= src["addr"] + src["len"]):
                    by.append(dict(src))
                    continue
            by.append({"addr": w.randrange(0, 0x100000), "len": w.randrange(1, 64), "fill": w.getrandbits(32)})
        case["bystander"] = by
    if stream == "file" and f.random() < 0.4:
        case["fault"] = {"nth": f.choice([0, 1, 2, 3, f.randrange(0, 12), f.randrange(0, 400)]), "errno": f.choice(["ENOSPC", "EIO"])}
    return case


def plan(tier: str) -> dict[str, Any]:
    fixed = []
    # systematic family: every boundary length x both header settings x a few addresses, no faults
    for header in (False, True):
        shift = 0x200 if header else 0
        for n in BOUNDARY_LENGTHS:
            addrs = [0, 0x8000, EOFO - shift - 65535, EOFO - shift - 2 * 65535, EOFO - shift - 1, TOP - shift - n, TOP - shift - n - 1]
            if n:
                addrs.append(EOFO - shift - n)  # ends right before the marker offset
            for a in addrs:
                if a < 0:
                    continue
                for stream in ("bytesio", "file"):
                    fixed.append(
                        {
                            "header": header,
                            "ops": [{"addr": 0x10, "len": 3, "fill": 1}, {"addr": a, "len": n, "fill": 2}, {"addr": 0x20, "len": 2, "fill": 3}],
                            "stream": stream,
                            "bufsize": 64,
                            "short_writes": None,
                            "fault": None,
                            "meta": {"family": "boundary"},
                        }
                    )
    # systematic family: block A, an overlapping block B, then A again (the writer must not
    # remember, merge away or reorder anything: the last write wins)
    for header in (False, True):
        for stream in ("bytesio", "file"):
            for a_addr, a_len, b_off, b_len in ((0x8000, 4, 2, 1), (0x8000, 4, -2, 4), (0x8000, 300, 100, 50), (0x10000, 70000, 65530, 10), (0x8000, 4, 0, 4), (0x8000, 1, 0, 1)):
                a = {"addr": a_addr, "len": a_len, "fill": 11}
                b = {"addr": a_addr + b_off, "len": b_len, "fill": 12}
                for hist in ([a, b, dict(a)], [a, b, dict(a), dict(b)], [a, dict(a)], [a, b, {"addr": 0x20, "len": 2, "fill": 13}, dict(a)]):
                    fixed.append({"header": header, "ops": [dict(x) for x in hist], "stream": stream, "bufsize": 64, "short_writes": None, "fault": None, "meta": {"family": "aba"}})
    # systematic family: record headers whose offset and length bytes together spell the marker ("..45 4F" + "46 xx",
    # "..45" + "4F 46"): perfectly representable records
    for header in (False, True):
        shift = 0x200 if header else 0
        for a, n in ((0x12454F, 0x4612), (0x00454F, 0x4600), (0x7F454F, 0x46FF), (0x008045, 0x4F46), (0x123445, 0x4F46), (0x12454F - 65535, 65535 + 0x4612), (0x008045 - 2 * 65535, 2 * 65535 + 0x4F46)):
            if a - shift >= 0:
                for stream in ("bytesio", "file"):
                    fixed.append({"header": header, "ops": [{"addr": 0x10, "len": 3, "fill": 1}, {"addr": a - shift, "len": n, "fill": 7}, {"addr": 0x20, "len": 2, "fill": 3}], "stream": stream, "bufsize": 64, "short_writes": None, "fault": None, "meta": {"family": "marker_across_fields"}})
    # the interpreter's own flags are environment: a sample of the two families above in fresh interpreters
    # started with -O (asserts stripped)
    step = 24 if tier == "quick" else 6
    fixed += [dict(c, pyflags=["-O"], meta=dict(c["meta"], interpreter="-O")) for c in fixed[::step]]
    return {"fixed": fixed, "seeded": 6000 if tier == "quick" else 0, "chunk": 40, "wall_cap_s": 200, "minimise_s": 25}


# ---------------------------------------------------------------------------
# child side


def _child(root: str, case: dict[str, Any]) -> dict[str, Any]:
    from a816.writers import IPSWriter

    header = bool(case["header"])
    shift = 0x200 if header else 0
    blocks = [(op["addr"], block_bytes(op)) for op in case["ops"]]
    env = None
    fobj: Any
    if case["stream"] == "bytesio":
        fobj = io.BytesIO()
    else:
        knobs: dict[str, Any] = {"short_writes": case.get("short_writes")}
        if case.get("bufsize"):
            knobs["bufsize"] = case["bufsize"]
        faults = []
        if case.get("fault"):
            faults.append({"op": "write", "role": "out_ips", "nth": case["fault"]["nth"], "errno": case["fault"]["errno"]})
        env = simenv.SimEnv(root, {"out.ips": "out_ips"}, knobs, faults)
    res: dict[str, Any] = {"verdicts": [], "refused_at": None, "fault_in_call": None, "swallowed": False, "harness_phase_fault": False}
    if case.get("log_level") is not None:
        import logging

        logging.getLogger().addHandler(logging.NullHandler())
        logging.getLogger().setLevel(case["log_level"] or logging.NOTSET + 1)
    cap = core.Capture()
    with cap:
        if env is not None:
            env.__enter__()
        try:
            if env is not None:
                fobj = open(os.path.join(root, "out.ips"), "wb")  # resolves to the simulated open
            # both documented ways of asking for the copier header: positionally (what a816's own front end
            # does) and by keyword; without it: omitted, or an explicit False
            style = (len(case["ops"]) + (case["ops"][0]["addr"] if case["ops"] else 0)) % 2
            if header:
                writer = IPSWriter(fobj, True) if style == 0 else IPSWriter(fobj, copier_header=True)
            else:
                writer = IPSWriter(fobj) if style == 0 else IPSWriter(fobj, copier_header=False)
            calls: list[tuple[str, Any]] = [("begin", None)] + [("write_block", i) for i in range(len(blocks))] + [("end", None)]
            done_blocks = 0
            # a second, unrelated writer on its own stream, driven in between the calls of the writer
            # under test (writers must not share state through the class or the module)
            by_ops = case.get("bystander") or []
            by_blocks = [(op["addr"], block_bytes(op)) for op in by_ops]
            by_stream = io.BytesIO()
            by_writer = IPSWriter(by_stream, not header) if by_ops else None
            by_calls = [("begin", None)] + [("write_block", i) for i in range(len(by_blocks))] + [("end", None)] if by_ops else []
            for name, arg in calls:
                if by_calls:
                    bname, barg = by_calls.pop(0)
                    try:
                        if bname == "begin":
                            by_writer.begin()
                        elif bname == "end":
                            by_writer.end()
                        else:
                            by_writer.write_block(by_blocks[barg][1], by_blocks[barg][0])
                    except Exception as e:  # noqa: BLE001
                        res["bystander_error"] = core.describe_exc(e)
                        by_calls = []
                fired_before = len(env.fired) if env is not None else 0
                try:
                    if name == "begin":
                        fn = writer.begin
                    elif name == "end":
                        fn = writer.end
                    else:
                        a, data = blocks[arg]
                        fn = lambda a=a, data=data: writer.write_block(data, a)  # noqa: E731
                    # deterministic step clock: a writer call needs a handful of steps per 64 KiB slice
                    _v, exc, steps, timed_out = run_clocked(fn, STEP_BUDGET)
                    res["steps"] = res.get("steps", 0) + steps
                    if timed_out:
                        res["hung_in"] = name
                        res["hung_arg"] = None if name != "write_block" else (blocks[arg][0], len(blocks[arg][1]))
                        break
                    if exc is not None:
                        raise exc
                    if name == "write_block":
                        done_blocks += 1
                except BaseException as e:  # noqa: BLE001
                    fired_now = env is not None and len(env.fired) > fired_before
                    if fired_now or isinstance(e, simenv.InjectedFault):
                        res["fault_in_call"] = name
                    else:
                        if res["refused_at"] is None:
                            res["refused_at"] = arg if name == "write_block" else name
                            res["refusal"] = core.describe_exc(e)
                        if name == "write_block":
                            # the caller catches the refusal and goes on using the writer
                            res.setdefault("refused", []).append((arg, core.describe_exc(e)))
                            continue
                    break
                else:
                    if env is not None and len(env.fired) > fired_before:
                        # the fault fired during this call and the call returned normally
                        res["swallowed"] = True
                        res["swallowed_in"] = name
                        break
            res["done_blocks"] = done_blocks
            if by_ops and not res.get("bystander_error"):
                try:
                    for bname, barg in by_calls:
                        if bname == "end":
                            by_writer.end()
                        elif bname == "write_block":
                            by_writer.write_block(by_blocks[barg][1], by_blocks[barg][0])
                    by_recs = ipsref.parse(by_stream.getvalue())
                    if ipsref.apply_records(by_recs) != ipsref.image_of_blocks(by_blocks, 0 if header else 0x200):
                        res["bystander_wrong"] = "image differs from its own blocks"
                except ipsref.IpsFormatError as e:
                    res["bystander_wrong"] = f"malformed: {e}"
                except Exception as e:  # noqa: BLE001
                    res["bystander_error"] = core.describe_exc(e)
            # harness closes the stream
            data_out: bytes | None
            if case["stream"] == "bytesio":
                data_out = fobj.getvalue()
            else:
                try:
                    fobj.close()
                except simenv.InjectedFault:
                    res["harness_phase_fault"] = True
                except OSError:
                    res["harness_phase_fault"] = True
                data_out = simenv.read_real(os.path.join(root, "out.ips"))
        finally:
            if env is not None:
                env.__exit__(None, None, None)
    res["events"] = env.log if env is not None else []
    res["fired"] = env.fired if env is not None else []
    res["counts"] = dict(env.counts) if env is not None else {}
    res["unwrapped_open"] = env.unwrapped_open if env is not None else 0
    res["file_len"] = len(data_out or b"")

    # ---- oracle (harness code, runs here because the data is here)
    verdicts = res["verdicts"]
    faulted = bool(res["fired"])
    if res.get("hung_in"):
        verdicts.append(("writer_call_does_not_return", res["hung_in"], f"{res['hung_in']}({res.get('hung_arg')}) was still running after {STEP_BUDGET} interpreter steps"))
        return res
    if res.get("bystander_wrong") or res.get("bystander_error"):
        verdicts.append(("writers_interfere", "bystander", f"a second IPSWriter on its own stream, driven in between, produced a wrong file or failed: {res.get('bystander_wrong') or res.get('bystander_error')}"))
    if res["swallowed"]:
        verdicts.append(("swallowed_write_error", f"call={res['swallowed_in']}", f"an injected write error fired inside {res['swallowed_in']}() and the call returned normally"))
        return res
    if faulted:
        return res  # fault escaped the call (or fired in the harness phase): no further verdict
    # classify the refusal, if any
    n_judged = len(blocks)
    if res["refused_at"] is not None:
        if res["refused_at"] in ("begin", "end"):
            verdicts.append(("unexpected_refusal", res["refused_at"], f"{res['refused_at']}() raised {res['refusal']}"))
            return res
        for i, why in res.get("refused", []):
            a, data = blocks[i]
            cls = addr_class(a, len(data), shift)
            if cls in ("low", "other", "ends_at_2^24"):
                # (an empty block at an unrepresentable address may be refused or ignored: both accepted)
                verdicts.append(("unexpected_refusal", cls, f"write_block(len={len(data)}, addr={a:#x}) raised {why} although IPS can represent it"))
            res.setdefault("refused_class", cls)
        if verdicts:
            return res
    # the file must be a well-formed patch in every case - also when some blocks were refused and the
    # caller went on: accepted blocks in write order, each refused block contributing nothing or a
    # prefix of itself made of whole records (what was written before the writer noticed)
    refused_idx = [i for i, _ in res.get("refused", [])]
    try:
        records = ipsref.parse(data_out or b"")
    except ipsref.IpsFormatError as e:
        sig = e.klass
        if refused_idx:
            sig = "after_refusal:" + e.klass
        # locate: does the failure come from a record whose offset field reads 'EOF'?  (takes precedence:
        # a history that contains such an accepted block fails for that reason whatever else it contains)
        for j, (a, data) in enumerate(blocks):
            s = a + shift
            if j not in refused_idx and len(data) and s <= EOFO < s + len(data) and (EOFO - s) % 65535 == 0:
                sig = "record_offset_reads_as_EOF"
        verdicts.append(("malformed_file", sig, f"produced file is not a well-formed IPS patch{' (after a refused block the caller went on)' if refused_idx else ''}: {e} (klass {e.klass})"))
        return res
    res["n_records"] = len(records)
    got = ipsref.apply_records(records)
    want = ipsref.image_of_blocks(blocks, shift)
    if refused_idx:
        import itertools

        def prefixes(n: int) -> list[int]:
            out = [0]
            k = 1
            while k * 65535 - 1 < n:
                out += [p for p in (k * 65535 - 1, k * 65535) if p < n]
                k += 1
            return out

        matched = False
        for combo in itertools.islice(itertools.product(*[prefixes(len(blocks[i][1])) for i in refused_idx]), 5000):
            cut = dict(zip(refused_idx, combo))
            model = [(a, d[: cut[j]] if j in cut else (b"" if j in refused_idx else d)) for j, (a, d) in enumerate(blocks)]
            if got == ipsref.image_of_blocks(model, shift):
                matched = True
                break
        res["n_records"] = len(records)
        if not matched:
            accepted = ipsref.image_of_blocks([(a, b"" if j in refused_idx else d) for j, (a, d) in enumerate(blocks)], shift)
            sig = "after_refusal"
            for j, (a, data) in enumerate(blocks):
                s = a + shift
                if j not in refused_idx and len(data) and s <= EOFO < s + len(data) and (EOFO - s) % 65535 == 0:
                    sig = "record_offset_reads_as_EOF"
            verdicts.append(("image_mismatch", sig, "some blocks were refused and the caller went on; the patched image (first) is neither the accepted blocks alone (second) nor those plus a whole-record prefix of the refused ones: " + "; ".join(got.diff(accepted))))
        return res
    if got != want:
        d = got.diff(want)
        sig = "image"
        for a, data in blocks:
            s = a + shift
            if len(data) and s <= EOFO < s + len(data) and (EOFO - s) % 65535 == 0:
                sig = "record_offset_reads_as_EOF"
            elif s < 0 or s + len(data) > TOP + 65535 or s >= TOP:
                sig = "unrepresentable_address_accepted"
        verdicts.append(("image_mismatch", sig, "patched image (first) differs from blocks-in-write-order model (second): " + "; ".join(d)))
        return res
    total = sum(len(ipsref.record_bytes(r)) for r in records)
    if total > sum(len(b) for _, b in blocks):
        verdicts.append(("covered_more_than_once", "total", f"records carry {total} bytes for {sum(len(b) for _, b in blocks)} bytes of blocks"))
    res["image_digest"] = got.digest()
    res["multi_slice"] = any(len(b) > 65535 for _, b in blocks)
    return res


# ---------------------------------------------------------------------------
# worker side


def run_case(case: dict[str, Any], stats: Stats) -> list[Violation]:
    root = simenv.new_sandbox()
    try:
        if case.get("pyflags"):
            res = core.run_fresh_fn("sim.props.c11", "_child", (root, case), "0", list(case["pyflags"]))
            stats.bump("probe:history_in_fresh_interpreter_with_flags:" + "".join(case["pyflags"]))
        else:
            res = core.run_child(_child, root, case)
    finally:
        simenv.drop_sandbox(root)
    header = bool(case["header"])
    shift = 0x200 if header else 0
    stats.evaluations += 1
    stats.chain_add(res["events"], res["fired"], res.get("refused_at"), res.get("refusal"), res.get("fault_in_call"), res.get("image_digest"), res.get("file_len"), res["verdicts"])
    stats.io_ops += len(res["events"])
    stats.steps += int(res.get("steps", 0))
    for f in res["fired"]:
        stats.bump(f"fault_fired:{f['op']}:{f['role']}:{f['errno']}")
    for k, v in res["counts"].items():
        stats.bump(f"benign:{k}", v)
    if res.get("fault_in_call"):
        stats.bump("fault_fired_inside_writer_call")
        if res["fault_in_call"] == "write_block" and res.get("done_blocks", 0) >= 1:
            stats.bump("probe:fault_after_a_block_was_written")
    if res.get("harness_phase_fault"):
        stats.bump("fault_fired_in_harness_close(no verdict)")
    if res.get("multi_slice"):
        stats.bump("probe:multi_slice_block")
    if res.get("refused_at") is not None:
        stats.bump(f"refused:{res.get('refused_class', res['refused_at'])}")
    classes = []
    for op in case["ops"]:
        ac = addr_class(op["addr"], op["len"], shift)
        classes.append((len_class(op["len"]), ac))
        if ac in ("slice_on_eof", "eof"):
            stats.bump("probe:slice_starts_at_eof_offset")
    fault_class = "none"
    if case.get("fault"):
        fault_class = "fired_in_" + str(res.get("fault_in_call")) if res["fired"] else "not_reached"
    if any(op["len"] for op in case["ops"]):
        stats.state(header, case["stream"], classes, fault_class)
    out = []
    for klass, sig, msg in res["verdicts"]:
        out.append(Violation(klass, sig, msg, case, {"refusal": res.get("refusal"), "file_len": res.get("file_len")}))
    return out


def sample_of(case: dict[str, Any]) -> Any:
    return {k: case.get(k) for k in ("header", "stream", "bufsize", "short_writes", "fault", "ops", "bystander")}


def shrink_candidates(case: dict[str, Any]):  # type: ignore[no-untyped-def]
    ops = case["ops"]
    for i in range(len(ops)):
        c = dict(case)
        c["ops"] = ops[:i] + ops[i + 1 :]
        yield c
    if case.get("bystander"):
        yield dict(case, bystander=None)
    for key, val in (("short_writes", None), ("bufsize", 0), ("stream", "bytesio")):
        if case.get(key) != val and not (key == "stream" and case.get("fault")):
            c = dict(case)
            c[key] = val
            yield c
    if case.get("fault") and case["fault"]["nth"] > 0:
        for nth in (0, case["fault"]["nth"] // 2, case["fault"]["nth"] - 1):
            c = dict(case)
            c["fault"] = dict(case["fault"], nth=nth)
            yield c
    header = case["header"]
    shift = 0x200 if header else 0
    for i, op in enumerate(ops):
        n = op["len"]
        for n2 in sorted({0, 1, n // 2, n - 65535, n - 1}):
            if 0 <= n2 < n:
                c = dict(case)
                c["ops"] = ops[:i] + [dict(op, len=n2)] + ops[i + 1 :]
                yield c
                # keep the end of the block where it was (matters for slices landing on EOF)
                c2 = dict(case)
                c2["ops"] = ops[:i] + [dict(op, len=n2, addr=op["addr"] + (n - n2))] + ops[i + 1 :]
                yield c2
        for a2 in (0, 0x10):
            if op["addr"] != a2:
                c = dict(case)
                c["ops"] = ops[:i] + [dict(op, addr=a2)] + ops[i + 1 :]
                yield c


def evidence(total: Stats, tier: str) -> dict[str, Any]:
    return {
        "components_real": ["a816.writers.IPSWriter", "struct", "io.BufferedWriter (CPython)", "io.BytesIO", "kernel tmpfs file"],
        "components_stubbed": ["raw file layer (sim.simenv.SimRaw: op counting, ENOSPC/EIO injection, short writes)"],
        "reference_models": ["sim.ipsref: strict IPS reader + applier onto a sparse image with written-offset mask", "model image: blocks applied in write order at addr(+0x200)"],
        "simulated_time": "no clock in this system; I/O operations simulated are reported as io_operations_simulated",
        "explanation": "systematic family (all boundary lengths x both header settings x 8 addresses x 2 stream kinds) is enumerated completely; the rest is seeded search",
    }
