"""C19 - assemblies are independent of each other and repeatable.

A seeded *history* of assemblies (valid, failing part-way at injected crash
points, custom .map, other ROM types/options, CLI runs, file rewrites) runs in
one process; then a probe is assembled, and assembled again.  Reference: the
same probe alone in a process that has done nothing (pristine fork), on the
disk state of probe time.  R(after) == R(alone) == R(repeated).
"""
from __future__ import annotations

import os
import pickle
import random
import subprocess
import sys
from typing import Any, Iterator

from .. import core, entries, progen, simenv
from ..runner import Stats, Violation
from .c14 import ERROR_CLASSES, applicable, error_node

PROP = "C19"
LEVEL = "exploration"
RULE = (
    "histories of 1..12 operations on fresh Program objects - valid progen programs through string/assemble/patch/CLI entry "
    "points under low/low2/high and option sets, programs with custom .map, programs defining a shared name pool (macro, :=, =, "
    "label, named scope, table), programs failing at a seeded slot (every definite error class), assemblies crashed by an I/O "
    "fault at the k-th raw operation or by a Writer raising at block k, rewrites/deletions of files a previous assembly read - "
    "followed by a probe (progen program plus negative references to pool names and positive redefinitions, its own table, "
    "shared include files), run twice.  Non-trivial = history has at least one assembly; distinct = (history op-kind sequence, "
    "crash kinds, probe feature signature, rom types)."
)
ASSUMPTIONS = [
    "reference = the probe alone in a pristine fork of a worker that has imported a816 but never run it; a sample is cross-checked in fresh interpreters under other PYTHONHASHSEED values",
    "compared: return value / exception type and message (object addresses scrubbed), the (address, bytes) block sequence, get_all_labels(), output file bytes and status; log text and warnings are not compared",
    "history operations are assemblies through public entry points and file changes between them; direct pokes at module objects are not history operations",
]
REQUIRED_REACH = [
    "probe:history_has_custom_map",
    "probe:history_has_failed_assembly",
    "probe:history_has_io_crash",
    "probe:history_has_writer_crash",
    "probe:history_rewrote_shared_file",
    "probe:history_defined_pool_names",
    "probe:negative_reference_in_probe",
    "probe:probe_itself_fails",
    "probe:fresh_interpreter_probe",
    "probe:history_failed_the_way_the_probe_fails",
    "probe:history_changed_working_directory",
    "probe:history_of_hundreds_of_assemblies",
    "probe:bare_failing_program_assembled_again",
    "probe:history_other_rom_type",
    "probe:history_used_probe_path",
    "probe:history_assembled_probe_text_under_other_layout",
    "probe:history_assembled_probe_text_with_other_defines",
]

POOL_TABLE = "58=x\n59=y\n5A=z\n5B5C=w\n7100=A\n72=B\n"
PROBE_TABLE = "41=A\n42=B\n43=C\n44=D\nE9=\u00e9\n8140=\u3042\n"


TEXT_POOL = ["AB", "ABC", "A", "xyzw", "ABxyzwCD", "BA", "A\u00e9B", "\u3042A"]


def pool_prelude(rng: random.Random, prefix: str) -> list[progen.Node]:
    """Definitions of the shared name pool (only ever made by history programs)."""
    nodes: list[progen.Node] = []
    picks = [x for x in ("macro", "assign", "eq", "label", "scope", "table", "macro2", "param", "codeblock", "forvar") if rng.random() < 0.55]
    if "param" in picks:
        nodes.append(progen.block(".macro pool_pm(pool_param) {", [progen.stmt(".db pool_param")], "macro_def"))
        nodes.append(progen.stmt("pool_pm(4)"))
    if "codeblock" in picks:
        nodes.append(progen.block(".macro pool_cb(pool_blk) {", [progen.stmt("{{ pool_blk }}"), progen.stmt("nop")], "macro_def"))
        nodes.append(progen.stmt("pool_cb({\n    inx\n    iny\n})"))
    if "forvar" in picks:
        nodes.append(progen.block(".for pool_i := 0, 2 {", [progen.stmt(".db pool_i")], "for"))
    if "macro" in picks:
        nodes.append(progen.block(".macro pool_m(a) {", [progen.stmt(".db a, 0x11")], "macro_def"))
        nodes.append(progen.stmt("pool_m(3)"))
    if "macro2" in picks:
        nodes.append(progen.block(".macro pool_redef(a) {", [progen.stmt(".dw a, 0x2222")], "macro_def"))
    if "assign" in picks:
        nodes.append(progen.stmt("pool_c := 5"))
    if "eq" in picks:
        nodes.append(progen.stmt("pool_e = 0x77"))
    if "label" in picks:
        nodes.append(progen.stmt("pool_l:"))
    if "scope" in picks:
        nodes.append(progen.block(".scope pool_s {", [progen.stmt("pool_sl:"), progen.stmt(".db 1")], "scope"))
    if "table" in picks:
        nodes.append(progen.stmt(f".table '{prefix}pool.tbl'"))
        nodes.append(progen.stmt(".text 'xyzw'"))
        nodes.append(progen.stmt(f".text '{rng.choice(TEXT_POOL)}'"))
    return nodes


NEGATIVE_FORMS = [
    ("macro", "pool_m(1)"),
    ("assign_data", ".db pool_c"),
    ("assign_if", ".if pool_c {\n    .db 0xA1\n} else {\n    .db 0xA2\n}"),
    ("eq", ".dw pool_e"),
    ("label", "lda.w pool_l"),
    ("label_data", ".dl pool_l"),
    ("scope", ".dl pool_s.pool_sl"),
    ("text_no_table", ".text 'xy'"),
    ("param", ".db pool_param"),
    ("codeblock_lookup", "{{ pool_blk }}"),
    ("codeblock_name_as_const", "pool_blk = 5\n.db pool_blk"),
    ("forvar", ".db pool_i"),
    ("cli_define", ".db DEF0"),
    ("incbin_label", ".dw shared_bin__size"),
    # sensitive to interpreter-wide settings an earlier assembly may have changed (recursion limit):
    # 300 levels fail alone with RecursionError, 150 levels succeed alone
    ("deep_recursion_fails_alone", ".macro deep_zq(n) {\n    .if n {\n        deep_zq(n - 1)\n    }\n    .db 1\n}\ndeep_zq(300)"),
    ("deep_recursion_passes_alone", ".macro deep2_zq(n) {\n    .if n {\n        deep2_zq(n - 1)\n    }\n    .db 2\n}\ndeep2_zq(150)"),
]


def gen_history_program(rng: random.Random, idx: int) -> dict[str, Any]:
    prefix = f"h{idx}_"
    mapping = rng.choice(["low", "low", "high", "low2"])
    feats = {x for x in progen.ALL_FEATURES if rng.random() < 0.5}
    feats |= {"data"}
    feats -= {"far_banks"}
    if rng.random() < 0.6:
        feats.discard("map")
    if mapping == "low2":
        feats.discard("map")
    defines: list[tuple[str, str]] = []
    if "defines" in feats:
        defines = [("DEF0", "0x12"), ("DEF1", rng.choice(["0", "1"])), ("DEF2", "2")][: rng.randrange(1, 4)]
    prog = progen.gen_program(rng, mapping, feats, defines, size=rng.choice([4, 8, 12]) if rng.random() < 0.93 else rng.choice([200, 500, 900]), prefix=prefix)
    for n in prog.root:
        # the other spelling of a ROM mapping's default attribute (histories only: what it means is not
        # relied upon, only that it must not leak into the next assembly)
        if n["k"] == "map" and "writable" not in n["t"] and rng.random() < 0.35:
            n["t"] += rng.choice([" writable=0", " writable=0", " writable=1"])
    pool = pool_prelude(rng, prefix) if rng.random() < 0.7 else []
    if pool:
        # after the first *= (and after any .map lines)
        pos = next(i for i, n in enumerate(prog.root) if n["k"] == "stareq") + 1
        prog.root[pos:pos] = pool
        if any("pool.tbl" in n.get("t", "") for n in pool):
            prog.files[f"{prefix}pool.tbl"] = POOL_TABLE.encode()
            prog.roles[f"{prefix}pool.tbl"] = "table"
    shared = None
    if rng.random() < 0.4:
        shared = rng.choice(["shared.s", "shared.bin", "shared.tbl", "shared.ips"])
        text = {"shared.s": ".include 'shared.s'", "shared.bin": ".incbin 'shared.bin'", "shared.tbl": f".table 'shared.tbl'\n.text '{rng.choice(TEXT_POOL[:3] + TEXT_POOL[5:])}'", "shared.ips": f".include_ips 'shared.ips', {rng.choice(['-0x200', '0x1000', '0x10', '0'])}"}[shared]
        prog.root.append({"k": "stmt", "t": text})
    if rng.random() < 0.06:
        # a program that evaluates nothing after code generation: the abandoned evaluation below is the
        # very last thing the evaluator does for this assembly
        fl = f"{prefix}fl"
        tiny = progen.gen_program(random.Random(1), "low", {"data"}, [], size=2, prefix=prefix)
        tiny.root = [{"k": "stmt", "t": f"{fl} := 1\n.if {rng.choice([f'-{fl} < 0', f'{fl} + 1 > 0', f'{fl} & 1 != 0'])} {{\n    nop\n}}\n{rng.choice(['nop', 'inx', 'rts'])}"}]
        tiny.global_labels = []
        tiny.table_addr = None
        return {"prog": tiny.to_record(), "pool": False, "shared": None, "prefix": prefix}
    if rng.random() < 0.15:
        # the last expression this program evaluates is one whose evaluation is abandoned half-way (a
        # condition the evaluator gives up on counts as false): scratch state of the evaluator must not
        # survive into the next assembly
        fl = f"{prefix}fl"
        prog.root.append({"k": "stmt", "t": f"{fl} := 1\n.if {rng.choice([f'-{fl} < 0', f'{fl} + 1 > 0', f'{fl} & 1 != 0', f'({fl} + 2) * 3 >= 1'])} {{\n    nop\n}}"})
    return {"prog": prog.to_record(), "pool": bool(pool), "shared": shared, "prefix": prefix}


def gen_probe(rng: random.Random) -> dict[str, Any]:
    mapping = rng.choice(["low", "low", "high", "any", "any"])
    feats = {x for x in progen.ALL_FEATURES if rng.random() < 0.45}
    feats |= {"data"}
    feats -= {"far_banks", "table"}
    if mapping != "low" or rng.random() < 0.75:
        feats.discard("map")  # a quarter of the low probes install their own mapping (without optional attributes)
    if mapping == "any":
        feats |= {"branches"}
    defines: list[tuple[str, str]] = []
    if "defines" in feats:
        defines = [("DEF0", rng.choice(["0x12", "7"])), ("DEF1", rng.choice(["0", "1"])), ("DEF2", rng.choice(["1", "3"]))][: rng.randrange(1, 4)]
    prog = progen.gen_program(rng, mapping, feats, defines, size=rng.choice([4, 8, 10]), prefix="p_")
    extra: list[progen.Node] = []
    negatives = []
    r = rng.random()
    if r < 0.75:
        for name, text in rng.sample(NEGATIVE_FORMS, rng.randrange(1, 3)):
            negatives.append(name)
            extra.append({"k": "stmt", "t": text})
    if rng.random() < 0.3:
        # positive redefinition: same name as the history's macro, different body
        extra.append(progen.block(".macro pool_redef(a) {", [progen.stmt(".db a")], "macro_def"))
        extra.append(progen.stmt("pool_redef(7)"))
        negatives.append("redefine_macro")
    if rng.random() < 0.25 and mapping != "any":
        # code position and relocation address computed from a label / an '=' symbol of the probe itself
        extra.append(progen.stmt("p_anchor:", "label"))
        extra.append(progen.stmt(".db 0x5a"))
        extra.append(progen.stmt(rng.choice(["*=p_anchor + 0x20", "@=p_anchor + 0x100", "p_off = 0x40\n*=p_anchor + p_off"]), "stareq"))
        extra.append(progen.stmt("p_after:", "label"))
        extra.append(progen.stmt(".dl p_after"))
        negatives.append("label_relative_position")
    if rng.random() < 0.35:
        # own table; text contains characters only the history's table knows (skipped when alone)
        prog.files["p_own.tbl"] = PROBE_TABLE.encode()
        prog.roles["p_own.tbl"] = "table"
        extra.append(progen.stmt(".table 'p_own.tbl'"))
        extra.append(progen.stmt(f".text '{rng.choice(TEXT_POOL)}'"))
        extra.append(progen.stmt(".text 'ABxyzwCD'"))
        negatives.append("table_chars")
    shared = None
    if rng.random() < 0.4:
        shared = rng.choice(["shared.s", "shared.bin", "shared.tbl", "shared.ips"])
        text = {"shared.s": ".include 'shared.s'", "shared.bin": ".incbin 'shared.bin'", "shared.tbl": f".table 'shared.tbl'\n.text '{rng.choice(TEXT_POOL[:3] + TEXT_POOL[5:])}'", "shared.ips": f".include_ips 'shared.ips', {rng.choice(['-0x200', '0x1000', '0x10', '0'])}"}[shared]
        extra.append({"k": "stmt", "t": text})
    # place the extras before the trailing label table (keeps them in the last code section)
    pos = len(prog.root)
    for i, n in enumerate(prog.root):
        if n["k"] == "stareq" and prog.table_addr is not None and f"{prog.table_addr:#08x}" in n["t"]:
            pos = i
    prog.root[pos:pos] = extra
    entry = rng.choice(["string", "string", "patch", "assemble", "cli"])
    rom = mapping if mapping != "any" else rng.choice(["low", "high", "low2"])
    return {"prog": prog.to_record(), "negatives": negatives, "shared": shared, "entry": entry, "rom": rom, "any_layout": mapping == "any", "defines": [list(d) for d in defines], "rom_default": rom == "low" and rng.random() < 0.5}


SHARED_V = {
    "shared.s": [b".db 1, 2, 3\nshared_l1:\n", b".db 9\nnop\nshared_l2:\n.dw 0x1234\n", b"inx\n", b".db 1,\n?\n", b"lda.q #1\n", b"{\nnop\n"],
    "shared.bin": [b"\x01\x02\x03\x04", b"\xff" * 9, b"\x00"],
    "shared.ips": [b"PATCH\x2f\x00\x00\x00\x04ips1\x2f\x10\x00\x00\x00\x00\x08\x55EOF", b"PATCH\x2f\x00\x02\x00\x03abcEOF", b"PATCH\x2f\x00\x00\x00\x04ips1"],
    "shared.tbl": [b"41=A\n42=B\n43=C\n", b"61=A\n62=B\n", b"4100=A\n4200=B\n43=C\n", b"41=A\n82A0=\x82\xa0\n42=B\n", "41=A\n42=B\nE9=\u00e9\n".encode("utf-8"), "41=A\nE9=\u00e9\n".encode("latin-1")],
}


def spec_for(entry: str, src: str, out_prefix: str, mapping: str, defines: list[Any], rng: random.Random, rom_default: bool = False) -> dict[str, Any]:
    spec: dict[str, Any] = {"entry": entry, "src": src, "defines": defines}
    if entry in ("string", "with_emitter"):
        if not rom_default:
            spec["rom"] = mapping
    elif entry == "assemble":
        if not rom_default:
            spec["rom"] = mapping
        spec["out"] = out_prefix + "out.sfc"
    elif entry == "patch":
        if not rom_default:
            spec["mapping"] = mapping
        spec["copier"] = rng.random() < 0.3
        spec["out"] = out_prefix + "out.ips"
    else:
        fmt = rng.choice(["ips", "sfc"])
        spec["format"] = fmt
        if not rom_default:
            spec["mapping"] = mapping
        spec["copier"] = fmt == "ips" and rng.random() < 0.3
        spec["out"] = out_prefix + "out." + fmt
        spec["dump_symbols"] = rng.random() < 0.2
        spec["verbose"] = rng.random() < 0.25
        if rng.random() < 0.3:
            spec["argv_style"] = rng.getrandbits(16)  # other spellings; defaults (-f ips, -m low) may be left out
    return spec


def root_positions(ops: list[dict[str, Any]]) -> list[int]:
    """Indices at which an operation can be inserted while the working directory is the sandbox root."""
    out = []
    depth = 0
    for i, op in enumerate(ops):
        if depth == 0:
            out.append(i)
        if op["op"] == "chdir":
            depth = 1 if op.get("path") else 0
    if depth == 0:
        out.append(len(ops))
    return out


def gen_case(cseed: int, tier: str) -> dict[str, Any]:
    h = core.substream(cseed, "history")
    w = core.substream(cseed, "workload")
    f = core.substream(cseed, "faults")
    n_ops = h.choice([1, 1, 2, 2, 3, 3, 4, 5, 6, 8, 12])
    enabled = {k for k in ("valid", "map", "pool", "fail", "iocrash", "wcrash", "rewrite", "same_path", "torn", "otherdir") if h.random() < 0.6} | {"valid"}
    same_path_ops: list[int] = []
    ops: list[dict[str, Any]] = []
    files: dict[str, bytes] = {k: v[0] for k, v in SHARED_V.items()}
    roles: dict[str, str] = {"shared.s": "include", "shared.bin": "incbin", "shared.tbl": "table", "shared.ips": "ips_in"}
    for i in range(n_ops):
        kind = h.choice(sorted(enabled))
        if kind == "rewrite":
            name = h.choice(sorted(SHARED_V))
            if h.random() < 0.15:
                ops.append({"op": "delete_file", "path": name, "kind": "rewrite"})
            else:
                ops.append({"op": "write_file", "path": name, "data": h.choice(SHARED_V[name][1:]), "kind": "rewrite"})
            continue
        hp = gen_history_program(w, i)
        prog = progen.Prog.from_record(hp["prog"])
        if kind == "map" and "map" not in prog.features and prog.mapping != "low2":
            # force a custom mapping program
            w2 = random.Random(w.getrandbits(32))
            prog = progen.gen_program(w2, "low", {"data", "map", "blocks"}, [], size=6, prefix=hp["prefix"])
            for n in prog.root:
                if n["k"] == "map" and "writable" not in n["t"] and w2.random() < 0.35:
                    n["t"] += w2.choice([" writable=0", " writable=0", " writable=1"])
            hp = dict(hp, prog=prog.to_record(), pool=False, shared=None)
        insert = None
        faults: list[dict[str, Any]] = []
        writer_fail = None
        entry = h.choice(["string", "string", "with_emitter", "assemble", "patch", "cli"])
        if kind == "fail" or (kind == "same_path" and h.random() < 0.5):
            # (a program stored under the probe's own path that fails: whatever is remembered per file name
            # about a failure - quoted source lines, positions - belongs to that text, not to the probe's)
            slots = list(progen.iter_slots(prog))
            klass = f.choice(sorted(ERROR_CLASSES))
            if (klass == "unmapped_bank" and not prog.unmapped_addr) or (klass in ("run_off_mapped_rom", "address_beyond_24_bits", "branch_64k_away") and "map" in prog.features):
                klass = "undefined_symbol_operand"
            ok = [s for s in slots if applicable(klass, s)]
            if ok:
                insert = {"class": klass, "slot": f.choice(ok)}
        elif kind == "iocrash":
            entry = h.choice(["with_emitter", "assemble", "patch", "cli"])
            role = f.choice(["source", "source", "include", "incbin", "table", "out_ips", "out_sfc"])
            op = f.choice(["open", "read"]) if not role.startswith("out_") else f.choice(["open", "write", "close"])
            faults = [{"op": op, "role": role, "nth": f.choice([0, 0, 1, 2]), "errno": f.choice(["EIO", "ENOSPC", "EACCES"]) if op != "read" else "EIO"}]
        elif kind == "wcrash":
            entry = h.choice(["string", "with_emitter"])
            writer_fail = f.choice([0, 0, 1, 2])
        src = f"h{i}.s" if h.random() < 0.75 else f"hsub{i % 2}/h{i}.s"  # sometimes next to nothing else, in a sub-directory
        if kind == "otherdir":
            src = f"h{i}.s"
        if kind == "same_path":
            # another program stored under the probe's own path, assembled, then replaced by the probe
            src = "probe.s"
            same_path_ops.append(len(ops))
        # now and then the history writes its output where the probe will write its own (a build script that
        # reuses one output name): what is left on disk must not show through in the probe's file
        spec = spec_for(entry, src, f"h{i}_" if h.random() > 0.2 else "probe_", prog.mapping, [list(d) for d in prog.defines], h)
        if writer_fail is not None:
            spec["writer_fail_at"] = writer_fail
        if insert is not None:
            prog = progen.insert_at(prog, insert["slot"], error_node(insert["class"], prog))
        pf = prog.all_files()
        pr = prog.all_roles()
        main_bytes = pf.pop("main.s")
        pr.pop("main.s")
        if kind == "torn":
            # the stored source was torn: cut at a seeded byte, or ends inside a multi-byte character
            cut = f.randrange(1, max(2, len(main_bytes)))
            main_bytes = main_bytes[:cut] + f.choice([b"", b"", b"\xc3", b"\xe3\x81", b"; caf\xc3"])
            entry = spec["entry"] = f.choice(["with_emitter", "assemble", "patch", "cli"])
            spec.update({k: v for k, v in spec_for(entry, src, f"h{i}_", prog.mapping, [list(d) for d in prog.defines], h).items() if k not in spec})
        if kind == "otherdir":
            # the caller visits another project directory: it changes into it, assembles there (relative
            # names, that directory's own versions of the shared files), and comes back
            d = f"proj{i % 2}"
            pf[src] = main_bytes
            for name in SHARED_V:
                files[f"{d}/{name}"] = SHARED_V[name][1 + (i % (len(SHARED_V[name]) - 1))]
                roles[f"{d}/{name}"] = roles[name]
            files.update({f"{d}/{k}": v for k, v in pf.items()})
            roles.update({f"{d}/{k}": v for k, v in pr.items()})
            roles[f"{d}/{src}"] = "source"
            spec["cwd"] = d
            if spec.get("out"):
                roles[f"{d}/{spec['out']}"] = "out_ips" if spec["out"].endswith(".ips") else "out_sfc"
            ops.append({"op": "chdir", "path": d, "kind": "otherdir"})
            ops.append({"op": "exec", "spec": spec, "knobs": {}, "faults": [], "kind": kind, "has_map": "map" in prog.features, "pool": hp["pool"], "mapping": prog.mapping, "insert_class": None})
            ops.append({"op": "chdir", "path": "", "kind": "otherdir"})
            continue
        roles[src] = "source"
        if kind == "same_path":
            ops.append({"op": "write_file", "path": "probe.s", "data": main_bytes, "kind": "same_path_write"})
        else:
            pf[src] = main_bytes
        files.update(pf)
        roles.update(pr)
        if spec.get("out"):
            roles[spec["out"]] = "out_ips" if spec["out"].endswith(".ips") else "out_sfc"
        knobs = {"bufsize": h.choice([16, 64, 4096])} if h.random() < 0.5 else {}
        ops.append({"op": "exec", "spec": spec, "knobs": knobs, "faults": faults, "kind": kind, "has_map": "map" in prog.features, "pool": hp["pool"], "mapping": prog.mapping, "insert_class": insert["class"] if insert else None})
    probe = gen_probe(w)
    pprog = progen.Prog.from_record(probe["prog"])
    if w.random() < 0.2:
        # the probe itself is a failing program: errors must be identical too
        slots = [s for s in progen.iter_slots(pprog)]
        klass = f.choice(sorted(ERROR_CLASSES))
        ok = [s for s in slots if applicable(klass, s)]
        if ok and not (klass == "unmapped_bank" and not pprog.unmapped_addr) and not (klass in ("run_off_mapped_rom", "address_beyond_24_bits", "branch_64k_away") and "map" in pprog.features):
            pprog = progen.insert_at(pprog, f.choice(ok), error_node(klass, pprog))
            probe["fails_by"] = klass
    if probe.get("fails_by") and h.random() < 0.5:
        # an earlier assembly in the same process fails for the *same reason* (same statement text, another
        # file and line): whatever is remembered about a failure must not be replayed to the probe
        klass = probe["fails_by"]
        for attempt in range(4):
            hp2 = gen_history_program(w, 90 + attempt)
            prog2 = progen.Prog.from_record(hp2["prog"])
            ok2 = [s2 for s2 in progen.iter_slots(prog2) if applicable(klass, s2)]
            if not ok2 or (klass == "unmapped_bank" and not prog2.unmapped_addr) or (klass in ("run_off_mapped_rom", "address_beyond_24_bits", "branch_64k_away") and "map" in prog2.features):
                continue
            prog2 = progen.insert_at(prog2, f.choice(ok2), error_node(klass, prog2))
            pf2, pr2 = prog2.all_files(), prog2.all_roles()
            pf2["hsame.s"] = pf2.pop("main.s")
            pr2["hsame.s"] = pr2.pop("main.s")
            files.update(pf2)
            roles.update(pr2)
            sp2 = spec_for(h.choice(["string", "with_emitter", "assemble", "patch", "cli"]), "hsame.s", "hsame_", prog2.mapping, [list(d) for d in prog2.defines], h)
            if sp2.get("out"):
                roles[sp2["out"]] = "out_ips" if sp2["out"].endswith(".ips") else "out_sfc"
            ops.insert(h.choice(root_positions(ops)), {"op": "exec", "spec": sp2, "knobs": {}, "faults": [], "kind": "same_failure", "has_map": "map" in prog2.features, "pool": hp2["pool"], "mapping": prog2.mapping, "insert_class": klass})
            break
    if w.random() < 0.12 and pprog.mapping == "low" and not probe.get("fails_by") and "map" not in pprog.features:
        # the probe touches the first bank of an unmapped range; a history program walks right up to
        # (and one byte past) the end of the mapped range below it
        bank, last = w.choice([(0x70, 0x6FFFFF), (0xD0, 0xCFFFFF)])
        pprog = progen.insert_at(pprog, {"file": "main.s", "path": [], "pos": len(pprog.root)}, {"k": "error", "t": f"*={(bank << 16) | 0x8000:#x}\n.db 1"})
        probe["fails_by"] = "unmapped_bank_edge"
        probe["rom"] = "low"
        edge_src = f"*={last:#x}\n.db 0x42\n".encode()
        files["hedge.s"] = edge_src
        roles["hedge.s"] = "source"
        ops.insert(h.choice(root_positions(ops)), {"op": "exec", "spec": {"entry": h.choice(["string", "patch", "cli"]), "src": "hedge.s", "rom": "low", "mapping": "low", "out": "hedge_out.ips", "format": "ips", "defines": []}, "knobs": {}, "faults": [], "kind": "edge_walk", "has_map": False, "pool": False, "mapping": "low", "insert_class": "run_off_mapped_rom"})
        roles["hedge_out.ips"] = "out_ips"
    pf = pprog.all_files()
    pr = pprog.all_roles()
    pf["probe.s"] = pf.pop("main.s")
    pr["probe.s"] = pr.pop("main.s")
    files.update(pf)
    roles.update(pr)
    if same_path_ops:
        # restore the probe's own text at its path before the probe runs
        ops.append({"op": "write_file", "path": "probe.s", "data": pf["probe.s"], "kind": "same_path_restore"})
    pspec = spec_for(probe["entry"], "probe.s", "probe_", probe["rom"], probe["defines"], w, probe["rom_default"])
    # the probe's own text assembled earlier in the same process under another layout / other -D values
    # (anything remembered per source text, file name or logical address would be stale for the probe)
    same_text_variants = []
    if probe["any_layout"]:
        same_text_variants += [("rom", r) for r in ("low", "high", "low2") if r != probe["rom"]]
    if probe["defines"]:
        flipped = [[n, {"0": "1", "1": "0", "0x12": "0x34", "7": "9", "3": "1"}.get(v, "2")] for n, v in probe["defines"]]
        same_text_variants.append(("defines", flipped))
    if "map" in pprog.features and b".map " in files["probe.s"]:
        # the probe's own text with the optional attributes of its .map lines spelled out (or changed): same
        # banks, same mask, same addresses translated - under what must be a different mapping object
        import re as _re

        alt = _re.sub(rb"(\.map [^\n]*?)(\n)", lambda m: m.group(1) + (b"" if b"writable" in m.group(1) else h.choice([b" writable=0", b" writable=0", b" writable=1"])) + m.group(2), files["probe.s"])
        if alt != files["probe.s"]:
            files["probe_ms.s"] = alt
            roles["probe_ms.s"] = "source"
            same_text_variants.append(("mapspell", None))
    if same_text_variants and h.random() < 0.8:
        for kind, val in h.sample(same_text_variants, h.randrange(1, len(same_text_variants) + 1)):
            e = h.choice(["string", "with_emitter", "patch", "assemble", "cli"])
            st = spec_for(e, "probe.s" if kind != "mapspell" else "probe_ms.s", f"st{len(ops)}_", val if kind == "rom" else probe["rom"], val if kind == "defines" else probe["defines"], h)
            if st.get("out"):
                roles[st["out"]] = "out_ips" if st["out"].endswith(".ips") else "out_sfc"
            pos = h.choice(root_positions(ops))
            if same_path_ops:
                pos = 0  # before the probe's path is borrowed by another program
            ops.insert(pos, {"op": "exec", "spec": st, "knobs": {}, "faults": [], "kind": "same_text_" + kind, "has_map": False, "pool": False, "mapping": val if kind == "rom" else probe["rom"], "insert_class": None})
    if pspec.get("out"):
        roles[pspec["out"]] = "out_ips" if pspec["out"].endswith(".ips") else "out_sfc"
    return {"files": files, "roles": roles, "ops": ops, "probe_spec": pspec, "probe_meta": {k: probe.get(k) for k in ("negatives", "shared", "fails_by")}, "seed": cseed, "fresh": w.random() < (0.01 if tier == "quick" else 0.03)}


MISSPELT = [".inclde 'x.s'", ".inc", ".incl 'x.s'", ".includ_ips 'x.ips', 0", ".ma", ".macr m() {\n}", ".mapp", ".i", ".d", ".s", ".t", ".m", ".a", ".p", ".tabel 'a.tbl'", ".strct h {\n}", ".dq 1", ".poiner x", ".asci 'a'", ".fo i := 0, 2 {\n}", ".el", ".sc x {\n}", ".te 'a'", ".dbb 1", ".d 1", "..db 1"]


def interpreter_family() -> list[dict[str, Any]]:
    """Every error class (and a set of misspelt directives) as a failing probe with an empty history, run
    alone in a pristine fork and in fresh interpreters under three PYTHONHASHSEED values: the message of a
    failure is part of the result, and nothing in it may depend on per-process hashing or addresses."""
    out: list[dict[str, Any]] = []
    base = progen.gen_program(random.Random(7), "low", {"data", "symbols", "blocks", "macros", "scopes"}, [], size=6, prefix="p_")
    slots = list(progen.iter_slots(base))
    texts: list[tuple[str, progen.Prog]] = []
    for klass in sorted(ERROR_CLASSES):
        ok = [sl for sl in slots if applicable(klass, sl)]
        if not ok or (klass == "unmapped_bank" and not base.unmapped_addr):
            continue
        texts.append((klass, progen.insert_at(base, ok[len(ok) // 2], error_node(klass, base))))
    for i, t in enumerate(MISSPELT):
        texts.append((f"misspelt:{t.split()[0]}", progen.insert_at(base, {"file": "main.s", "path": [], "pos": len(base.root)}, {"k": "error", "t": t})))
    texts.append(("valid", base))
    for i, (klass, prog) in enumerate(texts):
        pf, pr = prog.all_files(), prog.all_roles()
        pf["probe.s"] = pf.pop("main.s")
        pr["probe.s"] = pr.pop("main.s")
        entry = ["string", "cli", "patch", "assemble"][i % 4]
        pspec = spec_for(entry, "probe.s", "probe_", "low", [], random.Random(i))
        if pspec.get("out"):
            pr[pspec["out"]] = "out_ips" if pspec["out"].endswith(".ips") else "out_sfc"
        out.append({"files": pf, "roles": pr, "ops": [], "probe_spec": pspec, "probe_meta": {"negatives": [], "shared": None, "fails_by": klass}, "seed": 5000 + i, "fresh": True, "family": "interpreter"})
    return out


def long_history_family(tier: str) -> list[dict[str, Any]]:
    """Hundreds of small assemblies (each scanning two files) before the probe: whatever counts, numbers or
    tabulates files, tokens, scopes or programs per *process* crosses its small thresholds (256, 1000)."""
    out: list[dict[str, Any]] = []
    for n, probe_text, fails_by in ((300, "*=0x008000\nstart:\n    lda.w #0x1234\n    jmp.w nowhere_zq\n", "undefined_symbol"), (1100, "*=0x008000\nstart:\n    lda.w #0x1234\n    jsr.w start\n    .dw start\n", None)) + (((4500, "*=0x008000\nstart:\n    lda.b #1 %\n", "scanner_error"),) if tier == "thorough" else ()):
        files: dict[str, bytes] = {"probe.s": probe_text.encode(), "tinc.s": b"nop\n"}
        roles: dict[str, str] = {"probe.s": "source", "tinc.s": "include"}
        ops: list[dict[str, Any]] = []
        for i in range(n):
            src = f"t{i % 50}.s"
            if src not in files:
                files[src] = f"*=0x{0x8000 + (i % 50) * 0x10:06x}\nt{i % 50}_l:\n    lda.b #{i % 50}\n.include 'tinc.s'\n{'    jmp.w missing_zq' if i % 7 == 3 else '    rts'}\n".encode()
                roles[src] = "source"
            ops.append({"op": "exec", "spec": {"entry": "string", "src": src, "rom": "low", "defines": []}, "knobs": {}, "faults": [], "kind": "tiny", "has_map": False, "pool": False, "mapping": "low", "insert_class": None})
        out.append({"files": files, "roles": roles, "ops": ops, "probe_spec": {"entry": "string", "src": "probe.s", "rom": "low", "defines": []}, "probe_meta": {"negatives": [], "shared": None, "fails_by": fails_by}, "seed": 7000 + n, "fresh": False, "family": "long_history"})
    return out


def bare_repeat_family() -> list[dict[str, Any]]:
    """Every error class as the *whole* program (its failing statement is the first thing the assembler
    looks at), under each ROM type, assembled and then assembled again as the probe (and repeated): what
    the first failure leaves half-updated is exactly what the second run meets first."""
    out: list[dict[str, Any]] = []
    i = 0
    for rom, unmapped in (("low", 0x728000), ("high", 0x008000), ("low2", 0)):
        dummy = progen.Prog()
        dummy.mapping = rom
        dummy.unmapped_addr = unmapped
        for klass in sorted(ERROR_CLASSES):
            if klass == "unmapped_bank" and not unmapped:
                continue
            text = error_node(klass, dummy)["t"] + "\n"
            files = {"probe.s": text.encode("utf-8"), "again.s": text.encode("utf-8")}
            roles = {"probe.s": "source", "again.s": "source"}
            entry = ["string", "patch", "cli", "assemble"][i % 4]
            i += 1
            hspec = spec_for(entry, "again.s" if i % 2 else "probe.s", "h_", rom, [], random.Random(i))
            pspec = spec_for(["string", "cli", "patch"][i % 3], "probe.s", "probe_", rom, [], random.Random(i + 1))
            for sp in (hspec, pspec):
                if sp.get("out"):
                    roles[sp["out"]] = "out_ips" if sp["out"].endswith(".ips") else "out_sfc"
            ops = [{"op": "exec", "spec": hspec, "knobs": {}, "faults": [], "kind": "bare_same_failure", "has_map": False, "pool": False, "mapping": rom, "insert_class": klass}]
            out.append({"files": files, "roles": roles, "ops": ops, "probe_spec": pspec, "probe_meta": {"negatives": [], "shared": None, "fails_by": klass}, "seed": 9000 + i, "fresh": False, "family": "bare_repeat"})
    return out


def plan(tier: str) -> dict[str, Any]:
    return {"fixed": interpreter_family() + long_history_family(tier) + bare_repeat_family(), "seeded": 3000 if tier == "quick" else 0, "chunk": 20, "wall_cap_s": 240, "minimise_s": 30}


# ---------------------------------------------------------------------------


def result_of(o: dict[str, Any], spec: dict[str, Any]) -> dict[str, Any]:
    r: dict[str, Any] = {"kind": o["kind"], "ok": o["ok"], "ret": o.get("ret"), "exc": o.get("exc"), "blocks": o["blocks"], "labels": o["labels"], "reported": o.get("log_warn")}
    for key in ("out", "symfile"):
        if spec.get(key):
            r["file:" + key] = entries.get_out(o, spec[key])
    return r


def explain_diff(a: dict[str, Any], b: dict[str, Any]) -> str:
    parts = []
    for k in sorted(set(a) | set(b)):
        if a.get(k) != b.get(k):
            va, vb = a.get(k), b.get(k)
            if k == "blocks":
                parts.append(f"blocks: {[(hex(x), y[:12].hex()) for x, y in (va or [])[:3]]} vs {[(hex(x), y[:12].hex()) for x, y in (vb or [])[:3]]} ({len(va or [])} vs {len(vb or [])} blocks)")
            elif isinstance(va, (bytes, type(None))) and isinstance(vb, (bytes, type(None))):
                parts.append(f"{k}: {len(va or b'')} bytes vs {len(vb or b'')} bytes")
            else:
                parts.append(f"{k}: {str(va)[:160]!r} vs {str(vb)[:160]!r}")
    return "; ".join(parts)


def final_files(case: dict[str, Any]) -> dict[str, bytes]:
    files = dict(case["files"])
    for op in case["ops"]:
        if op["op"] == "write_file":
            files[op["path"]] = op["data"]
        elif op["op"] == "delete_file":
            files.pop(op["path"], None)
    return files


def run_case(case: dict[str, Any], stats: Stats) -> list[Violation]:
    files, roles, ops = case["files"], case["roles"], case["ops"]
    if not _cwd_consistent(ops):
        stats.bump("no_verdict(history leaves the working directory somewhere else)")
        return []
    pspec = case["probe_spec"]
    probe_op = {"op": "exec", "spec": pspec, "knobs": {}, "faults": []}
    clean_ops = [{k: v for k, v in op.items() if k in ("op", "spec", "knobs", "faults", "path", "data", "mode")} for op in ops]
    # (the harness's wall-clock safety net is sized for a dozen operations: histories of thousands of
    # assemblies, thorough tier only, get more)
    wall = 1800.0 if len(ops) > 2000 else None
    after = entries.execute(files, roles, clean_ops + [probe_op, probe_op], wall_s=wall)
    alone = entries.execute(final_files(case), roles, [probe_op])
    for o in after:
        if o.get("kind") in ("returned", "raised", "exit", "timeout"):
            stats.add_outcome(o)
    stats.add_outcome(alone[0])
    r_after = result_of(after[-2], pspec)
    r_repeat = result_of(after[-1], pspec)
    r_alone = result_of(alone[0], pspec)
    # ---- reach
    kinds = [op.get("kind") for op in ops]
    crash_kinds = []
    for op, o in zip(ops, after):
        if op["op"] == "chdir":
            if op.get("path"):
                stats.bump("probe:history_changed_working_directory")
            continue
        if op["op"] != "exec":
            stats.bump("probe:history_used_probe_path" if str(op.get("kind", "")).startswith("same_path") else "probe:history_rewrote_shared_file")
            continue
        if op.get("kind") == "same_failure" and not o["ok"]:
            stats.bump("probe:history_failed_the_way_the_probe_fails")
        if op.get("kind") == "same_text_mapspell":
            stats.bump("probe:history_assembled_probe_text_with_map_attributes_spelled_out")
        if op.get("kind") == "same_text_rom":
            stats.bump("probe:history_assembled_probe_text_under_other_layout")
        if op.get("kind") == "same_text_defines":
            stats.bump("probe:history_assembled_probe_text_with_other_defines")
        if op.get("has_map"):
            stats.bump("probe:history_has_custom_map")
        if op.get("pool"):
            stats.bump("probe:history_defined_pool_names")
        if op.get("mapping") != "low":
            stats.bump("probe:history_other_rom_type")
        if op.get("insert_class") and not o["ok"]:
            stats.bump("probe:history_has_failed_assembly")
            crash_kinds.append("src")
        if o.get("fired"):
            stats.bump("probe:history_has_io_crash")
            crash_kinds.append("io:" + o["fired"][0]["op"])
        if o.get("writer_fired"):
            stats.bump("probe:history_has_writer_crash")
            crash_kinds.append("writer")
    meta = case.get("probe_meta") or {}
    if meta.get("negatives"):
        stats.bump("probe:negative_reference_in_probe")
    if not r_alone["ok"]:
        stats.bump("probe:probe_itself_fails")
    if any(op["op"] == "exec" for op in ops):
        stats.state(kinds, sorted(set(crash_kinds)), meta.get("negatives"), meta.get("shared"), pspec["entry"], pspec.get("rom") or pspec.get("mapping"), [op.get("mapping") for op in ops if op["op"] == "exec"])
    out: list[Violation] = []
    if r_after != r_alone:
        fields = ",".join(sorted(k for k in set(r_after) | set(r_alone) if r_after.get(k) != r_alone.get(k)))
        out.append(Violation("probe_result_depends_on_history", "after_vs_alone:" + fields, f"probe after the history differs from the probe alone: {explain_diff(r_after, r_alone)}", case, {"history_kinds": kinds}))
    elif r_repeat != r_after:
        out.append(Violation("probe_not_repeatable", "repeat", f"probe repeated immediately differs from its first run: {explain_diff(r_repeat, r_after)}", case, {"history_kinds": kinds}))
    if case.get("family") == "bare_repeat":
        stats.bump("probe:bare_failing_program_assembled_again")
    if case.get("family") == "long_history":
        stats.bump("probe:history_of_hundreds_of_assemblies")
    if case.get("family") == "interpreter":
        stats.bump("probe:interpreter_family_probe")
        stats.state("interpreter", meta.get("fails_by"), pspec["entry"], r_alone["ok"])
    if case.get("fresh") and not out:
        for hs in ("0", "1", str(case["seed"] % 4294967295)):
            fr = entries.run_fresh(final_files(case), roles, pspec, hs)
            stats.bump("probe:fresh_interpreter_probe")
            stats.add_outcome(fr)
            r_fresh = result_of(fr, pspec)
            if r_fresh != r_alone:
                out.append(Violation("probe_differs_in_fresh_interpreter", f"hashseed", f"probe alone in a fresh interpreter (PYTHONHASHSEED={hs}) differs from the pristine fork: {explain_diff(r_fresh, r_alone)}", case))
                break
    return out


def sample_of(case: dict[str, Any]) -> Any:
    return {
        "history": [({"kind": op.get("kind"), "entry": op["spec"]["entry"], "src": op["spec"]["src"], "faults": op.get("faults"), "insert_class": op.get("insert_class")} if op["op"] == "exec" else {"op": op["op"], "path": op["path"]}) for op in case["ops"]],
        "probe_spec": case["probe_spec"],
        "probe_meta": case.get("probe_meta"),
        "probe.s": case["files"]["probe.s"].decode("utf-8", "replace"),
    }


def _cwd_consistent(ops: list[dict[str, Any]]) -> bool:
    """Every assembly runs in the directory its spec was written for, and the history ends where the
    probe expects to be (a candidate that drops one 'chdir' of a pair would differ on any tree)."""
    cwd = ""
    for op in ops:
        if op["op"] == "chdir":
            cwd = op.get("path") or ""
        elif op["op"] == "exec" and (op["spec"].get("cwd") or "") != cwd:
            return False
    return cwd == ""


def shrink_candidates(case: dict[str, Any]) -> Iterator[dict[str, Any]]:
    ops = case["ops"]
    # drop history ops (largest reduction first)
    if len(ops) > 1:
        half = len(ops) // 2
        for part in (ops[half:], ops[:half]):
            if _cwd_consistent(part):
                c = dict(case)
                c["ops"] = part
                yield c
    for i in range(len(ops)):
        cand = ops[:i] + ops[i + 1 :]
        if ops[i]["op"] == "exec" and ops[i]["spec"].get("cwd") and 0 < i < len(ops) - 1 and ops[i - 1]["op"] == "chdir" and ops[i + 1]["op"] == "chdir":
            cand = ops[: i - 1] + ops[i + 2 :]  # a visit to another directory goes as a whole
        if _cwd_consistent(cand):
            c = dict(case)
            c["ops"] = cand
            yield c
    # drop faults / knobs from ops
    for i, op in enumerate(ops):
        if op["op"] == "exec" and (op.get("faults") or op.get("knobs")):
            c = dict(case)
            c["ops"] = ops[:i] + [dict(op, faults=[], knobs={})] + ops[i + 1 :]
            yield c
    # shrink source files line by line (probe and history sources)
    for name in sorted(case["files"]):
        if not name.endswith(".s"):
            continue
        lines = case["files"][name].decode("utf-8", "replace").split("\n")
        if len(lines) <= 1:
            continue
        n = len(lines)
        step = max(1, n // 2)
        while step >= 1:
            for i in range(0, n, step):
                new = lines[:i] + lines[i + step :]
                if len(new) == len(lines):
                    continue
                c = dict(case)
                c["files"] = dict(case["files"])
                c["files"][name] = "\n".join(new).encode()
                yield c
            if step == 1:
                break
            step //= 2


def evidence(total: Stats, tier: str) -> dict[str, Any]:
    return {
        "components_real": ["a816 (all of a816/ and script/), module state shared across the history", "a816.cli.cli_main", "logging", "CPython buffered I/O", "kernel tmpfs", "fresh /venv/bin/python interpreters for the PYTHONHASHSEED cross-check"],
        "components_stubbed": ["raw file layer (SimRaw)", "argv/exit capture", "user Writer (can fail at block k)", "'fresh process' is a pristine fork of a worker that never ran a816 code (validated against real fresh interpreters on a sample)"],
        "reference_models": ["the probe alone in a pristine process on the probe-time disk state"],
        "simulated_time": "no clock in this system; reported as I/O operations and interpreter steps simulated",
    }
