"""C15 - every input terminates.

Storage faults (what a torn / damaged save looks like) are applied to the
stored source and to included files of valid workloads, and the real scanner,
parser, code generator and emitter run under a deterministic interpreter-step
clock.  A run that exceeds a hard budget three orders of magnitude above the
fault-free run - and whose explicit loop counts are small - is a replayable
non-termination.
"""
from __future__ import annotations

import os
import random
import re
from typing import Any, Iterator

from .. import core, entries, progen
from ..runner import Stats, Violation
from ..runner import should_stop as runner_should_stop

PROP = "C15"
LEVEL = "fault_enumeration"
RULE = (
    "workloads: progen programs using every delimited construct (strings, /* */ and ; comments, {} () [], macros and argument "
    "lists, .if/.else, .for, .map, .scope, numbers in all bases, scoped identifiers, size suffixes, index registers), the "
    "repository's tests/samples/*.s, a hand-written delimiter zoo, and seeded token soup; faults on the stored bytes of the main "
    "source or of an included file: EOF at every byte offset (all offsets of files <= 600 bytes, boundary + seeded offsets "
    "above), lost / duplicated / swapped chunks at byte and token granularity, flipped bytes, NUL-filled sectors, up to 3 per "
    "case. Non-trivial = the fault changed the bytes; distinct = distinct faulted texts (hash), bucketed by the lexical "
    "construct the fault landed in."
)
ASSUMPTIONS = [
    "time is the deterministic step clock of sim.stepclock (sys.monitoring JUMP + PY_START events); wall-clock is only a harness safety net",
    "hard budget 2*10^7 steps (fault-free runs of the workloads are <= 1.5*10^5 steps); a run over the first-stage budget (100 x fault-free + 2*10^5) is re-run under the hard budget before any verdict",
    "no verdict when an explicit loop count observed at run time (range() in the code generator) or a literal in a .for header exceeds 64: the statement exempts explicit loop counts",
    "an exception other than the step-budget signal (including RecursionError, UnicodeDecodeError) is a reported error; MemoryError under a 4 GiB address-space limit counts as non-termination (unbounded growth)",
    "loops inside C code (regular expressions) execute no Python step: they are caught by a CPU-time limit on the child (20 s, confirmed under 90 s; a fault-free run needs ~0.02 s of CPU) - a verdict by CPU time, not by step count, so its replay is repeatable but not step-exact",
]
REQUIRED_REACH = [
    "probe:fault_in:string",
    "probe:fault_in:block_comment",
    "probe:fault_in:line_comment",
    "probe:fault_in:number",
    "probe:fault_in:directive",
    "probe:truncated_included_file",
    "probe:torn_utf8_through_file_entry",
    "probe:token_soup",
    "probe:include_graph",
    "probe:command_line_define_value",
]

HARD_BUDGET = 20_000_000
MEM_LIMIT = 4 << 30
# CPU-time limits of the child (RLIMIT_CPU), only for loops the step clock cannot see.  A fault-free run
# takes ~0.02 s of CPU; 2*10^7 steps take < 15 s.  CPU time does not depend on machine load.
CPU_STAGE1_S = 20
CPU_STAGE2_S = 90

ZOO = """*=0x008000
/* block comment { ( ' */
.macro zoo_m(a, b) {
    lda.w #a ; trailing comment
    .db b, (a + 1) * 2, 0b1010, 0x1F
    {{ a }}
}
zoo_s = 0x12
.scope zoo_scope {
    inner_l:
    .ascii 'it\\'s a string with ; and /* inside'
    lda (0x12),y
    lda [0x34],y
    lda (0x56,x)
    lda 0x1234,x
}
.if zoo_c {
    nop
} else {
    .dw zoo_scope.inner_l & 0xFFFF
}
zoo_c := 3
.for i := 0, zoo_c {
    .db i << 1
    {
        bra skip
        skip:
    }
}
.map identifier=7 bank_range=0x00, 0x3f addr_range=0x8000, 0xffff mask=0x8000 mirror_bank_range=0x80, 0xbf
.table 'zoo.tbl'
.text 'ABC[0x12]'
{
    {
        .text 'AB'
        .scope zoo_deep {
            { .text 'C' }
        }
    }
}
.macro zoo_blk(blk) {
    {{ blk }}
}
zoo_blk({
    zoo_blk({
        nop
    })
})
.include_ips 'zoo.ips', -0x200
.incbin 'zoo.bin'
.pointer zoo_scope.inner_l
"""

SOUP_TOKENS = [
    "lda", "sta", "nop", "bra", "jmp", "lda.w", "lda.b", "sta.l", "#", "#0x12", "0x12", "0b101", "12", "3", "(", ")", "[", "]", "{", "}", "{{", "}}", ",", ",x", ",y", ",s",
    "'str'", "'unterminated", "'esc\\'", ";", "; comment", "/*", "*/", "/* c */", ".macro", ".scope", ".if", ".else", "else", ".for", ".map", ".db", ".dw", ".dl", ".pointer",
    ".text", ".ascii", ".table", ".incbin", ".include", ".include_ips", ".struct", ".istruct", "name", "name:", "name.sub", "m(", "m()", "m(1, 2)", ":=", "=", "*=", "@=", "+", "-", "*", "&",
    "|", "<<", ">>", "==", "!=", "<", ">", "~", ".", ":", "\\", "?", "\0", "\t", "\n", "\n", "identifier=1", "bank_range=0,1", "é", "x := 1", "i := 0, 2",
]  # fmt: skip
SOUP_TOKENS += [c for c in "!\"#$%&'()*+,-./:;<=>?@[\\]^_`{|}~"]  # every ASCII punctuation character on its own
SOUP_TOKENS += [".macro fill(n) {\n .db n\n fill(n + 1)\n fill(n + 1)\n}\nfill(0)", ".macro ping() {\n pong()\n pong()\n}\n.macro pong() {\n ping()\n ping()\n}\nping()", ".macro spin() {\n nop\n spin()\n spin()\n spin()\n}\nspin()", ".macro dz(b) {\n {{ b }}\n {{ b }}\n}\ndz({\n dz({\n nop\n })\n})", ".include 'missing_zq.s'", ".include 'sub/missing_zq.s'", ".include 'other.s'", ".incbin 'missing_zq.bin'", ".table 'zoo.tbl'\n.text 'AB[0x40'", ".table 'zoo.tbl'\n.text '[0x40]A[0x41'", ".table 'zoo.tbl'\n.text '[0x'", ".table 'zoo.tbl'\n.text 'A]B[C'", ".table 'zoo.tbl'\n.text '[0xZZ]'", ".table 'zoo.tbl'\n.text ''", ".macro cy(a) {\n {{ a }}\n}\ncy({\n {{ a }}\n})", ".macro cz(a, b) {\n {{ a }}\n}\ncz({\n {{ b }}\n}, {\n {{ a }}\n})", "{\n {\n .text 'AB'\n }\n}", ".macro r() {\n r()\n}\nr()", ".macro ra() {\n rb()\n}\n.macro rb() {\n ra()\n}\nra()", ".macro q(b) {\n {{ b }}\n}\nq({\n q({\n nop\n})\n})", "{ { { { { { { {", "( ( ( ( ( ( (", "lda ((((((((1", "lda #-1", "lda -1", "#-1", "-1", ".ascii 'a fairly long string, never closed, with enough characters", "'" + "x" * 40, "lda #1 %", "lda (", "lda [", "lda #(", "lda.w #A %", ".db 1 %", "'main.s'", ".include 'main.s'", "a.b.c", "a..b", "0x", "0b", "0o7", "1e5", "lda.", "lda.w", ".", "..", ".db", ".db ,", ",,", "{{ x", "x }}", "*=", "@= 1", "x :=", "x =", "m(,)", "m((", "))"]


# the experimental .struct / .istruct directives, well formed and not
SOUP_TOKENS += [".struct h {", ".struct h { id }", ".struct h { bytes id }", ".struct h { byte byte id }", ".struct h { byte id", ".struct h {\n byte id\n word w\n}", ".struct h { 1 }", ".struct h { nop }", ".struct h { .db }", ".struct { }", ".struct h { }", ".struct h {\n ; c\n}", ".struct h { byte }", ".struct h { word id, }", ".istruct h {", ".istruct h { id = 1 }", ".istruct h { 1 }"]
# names re-bound from their own value (label, ':=' variable, macro argument, incbin size symbol, plain symbol)
SOUP_TOKENS += ["lbl:\nlbl = lbl + 1", "c := 0\nc = c + 1", "c := 0\nc := c + 1", ".macro emit(n) {\n n = n + 1\n .db n\n}\nemit(1)", "a = 1\na = a + 1", "a = a + 1", "a = b\nb = a", "a = b + 1\nb = a + 1\n.db a", "a := a", ".incbin 'zoo.bin'\nzoo_bin__size = zoo_bin__size + 1", "l1:\nl1:\n", "l2:\nl2 = 5\n.dw l2", "{\n x = x + 1\n}", ".scope s {\n s = s + 1\n}", ".for k := 0, 3 {\n k = k + 1\n}", ".for k := 0, 3 {\n k := k - 1\n}"]


# positions in banks the active bus does not map (below, between and above the mapped ones), negative and oversized addresses
SOUP_TOKENS += ["*=0x008000", "*=0x708000", "*=0x7F0000", "*=0-1", "*=0 - 0x10000", "@=0x7F0000", "@=0-1", "*=0xFFFFFF\n.dl 1", "*=0x1000000", "*=0x400000", "*=0xC00000", "*=0x3F8000\n.db 1", "*=0x000000\n.db 1", ".map identifier=9 bank_range=0xF0,0xFF addr_range=0x8000,0xFFFF mask=0x8000 mirror_bank_range=0x70,0x7F\n*=0x108000\n.db 1"]

# .map directives with unusual (but writable) attribute values: zero / tiny / huge / non-power-of-two masks,
# reversed and degenerate ranges, overlapping mirrors, a RAM mapping spelled the way emulator manifests do
SOUP_TOKENS += [
    ".map identifier=2 bank_range=0x7e, 0x7f addr_range=0x0000, 0xffff mask=0 writable=1\n*=0x7e0000\n.db 1",
    ".map identifier=1 bank_range=0x00, 0x3f addr_range=0x8000, 0xffff mask=0\n*=0x008000\n.db 1",
    ".map identifier=1 bank_range=0x3f, 0x00 addr_range=0x8000, 0xffff mask=0x8000\n*=0x008000\n.db 1",
    ".map identifier=1 bank_range=0x00, 0xff addr_range=0xffff, 0x0000 mask=0x8000\n*=0x008000\n.db 1",
    ".map identifier=1 bank_range=0, 0 addr_range=0, 0 mask=1\n*=0\n.db 1",
    ".map identifier=1 bank_range=0x00, 0x3f addr_range=0x8000, 0xffff mask=0x7fff\n*=0x018000\n.db 1",
    ".map identifier=1 bank_range=0x00, 0x3f addr_range=0x8000, 0xffff mask=0x1000000\n*=0x018000\n.db 1",
    ".map identifier=1 bank_range=0x00, 0x3f addr_range=0x8000, 0xffff mask=0x8000 mirror_bank_range=0x00, 0x3f\n*=0x018000\n.db 1",
    ".map identifier=1 bank_range=0x00, 0xffff addr_range=0x0000, 0xffffff mask=0x8000\n*=0x018000\n.db 1",
    ".map identifier=0 bank_range=0x00, 0x3f addr_range=0x8000, 0xffff mask=3\n*=0x018000\n.db 1, 2, 3, 4, 5",
    ".map identifier=1 bank_range=0x00, 0x3f addr_range=0x8000, 0xffff mask=0x8000\n.map identifier=1 bank_range=0x00, 0x3f addr_range=0x8000, 0xffff mask=0x10000\n*=0x018000\n.db 1",
    "mask=0", "writable=0", "mirror_bank_range=0,0", "addr_range=0,0",
]

# operands without a size suffix that no encoding of the opcode can hold (or only a wider / narrower one can)
SOUP_TOKENS += ["ldx 0x123456", "lda #0x123456", "rep #0x1234", "stz 0x123456,x", "lda 0x123456,y", "jmp 0x10", "lda 0x10,y", "pea 0x10", "jsr 0x123456", "bra 0x123456", "ldy #0x1234567", "sep #-1", "cpx 0x1000000", "W := 0x123456\nstz W,x\nlda W,y", "mvn 0x12,0x34", "brk 0x1234"]

# parenthesised operands followed by an operator (the parser backtracks at the opening parenthesis), after other parentheses
SOUP_TOKENS += ["lda.w (1+2)*2", "lda (0x10),y\nlda.w (3+4)*2", "m(1)\nlda.w (5)+1", "lda.w (1+2)*2\nlda.w (3+4)*2", ".macro p(a) {\n lda.w (a+1)*2\n}\np(1)\np(2)", "lda.b #(1+2)*3", "lda (1)", "lda.w ((1+2))*2", "sta.l (0x7e0000)+2,x"]

# file directives whose quoted path contains characters shells and path helpers expand
SOUP_TOKENS += [".incbin 'data$.bin'", ".include 'lib$UNSET.s'", ".include '$HOME/x.s'", ".table '~/x.tbl'", ".include_ips '$HOME/p.ips', 0", ".incbin '%TEMP%\\x.bin'", ".include '~'", ".incbin '${X}.bin'", ".include '$'", ".incbin '$$'", ".table '$(x).tbl'", ".include '`x`.s'"]

# odd spellings of -D values given to the command line (numbers in other notations, expressions, junk)
CLI_DEFINE_VALUES = ["1", "0x10", "-5", "$8000", "%1010", "1.5", "'A'", "\"A\"", "", " ", "1 +", "(", "((1)", "1e5", "0b", "0x", "#1", "A", "X", "X+1", "0x8000,1", "1;2", "/*", "{", "é", "\\", "1\n2", "0" * 400, "9" * 400, "~1", "1<<70", "@", "`"]


def lexical_bucket(text: bytes, at: int) -> str:
    """Rough lexical construct of the original text at byte offset `at`."""
    s = text.decode("utf-8", "replace") if isinstance(text, bytes) else text
    i = 0
    n = len(s)
    at = min(at, n - 1) if n else 0
    while i < n:
        c = s[i]
        if s.startswith("/*", i):
            j = s.find("*/", i + 2)
            j = n if j < 0 else j + 2
            if i <= at < j:
                return "block_comment"
            i = j
        elif c == ";":
            j = s.find("\n", i)
            j = n if j < 0 else j
            if i <= at < j:
                return "line_comment"
            i = j
        elif c == "'":
            j = i + 1
            while j < n and s[j] != "'" and s[j] != "\n":
                j += 2 if s[j] == "\\" else 1
            j = min(n, j + 1)
            if i <= at < j:
                return "string"
            i = j
        elif c.isdigit():
            j = i
            while j < n and (s[j].isalnum()):
                j += 1
            if i <= at < j:
                return "number"
            i = j
        elif c == ".":
            j = i + 1
            while j < n and (s[j].isalpha() or s[j] == "_"):
                j += 1
            if i <= at < j:
                return "directive"
            i = j
        elif c.isalpha() or c == "_":
            j = i
            while j < n and (s[j].isalnum() or s[j] in "_."):
                j += 1
            if i <= at < j:
                return "identifier_or_opcode"
            i = j
        else:
            if i == at:
                if c in "{}":
                    return "brace"
                if c in "()[]":
                    return "paren"
                if c in " \t\n":
                    return "whitespace"
                return "punctuation"
            i += 1
    return "end"


TOKEN_RE = re.compile(rb"\s+|[A-Za-z_][A-Za-z0-9_.]*|0x[0-9a-fA-F]+|0b[01]+|[0-9]+|'[^'\n]*'?|/\*|\*/|.", re.S)


def token_spans(data: bytes) -> list[tuple[int, int]]:
    return [(m.start(), m.end()) for m in TOKEN_RE.finditer(data)]


def apply_fault(data: bytes, f: dict[str, Any]) -> bytes:
    k = f["kind"]
    n = len(data)
    if k == "truncate":
        return data[: f["at"]]
    if k == "recode":
        # what transfers between systems and editors do to a stored text file
        how = f["how"]
        if how == "crlf":
            return data.replace(b"\r\n", b"\n").replace(b"\n", b"\r\n")
        if how == "cr":
            return data.replace(b"\r\n", b"\n").replace(b"\n", b"\r")
        if how == "bom":
            return b"\xef\xbb\xbf" + data
        if how == "bom_crlf":
            return b"\xef\xbb\xbf" + data.replace(b"\n", b"\r\n")
        if how == "utf16":
            return data.decode("utf-8", "replace").encode("utf-16")
        if how == "ctrl_z":
            return data + b"\x1a"
        if how == "no_final_newline":
            return data.rstrip(b"\n")
        if how == "trailing_spaces":
            return data.replace(b"\n", b"  \t\n")
        if how == "form_feed":
            return data.replace(b"\n", b"\n\x0c", 1)
        return data
    if n == 0:
        return data
    if k == "lose":
        return data[: f["a"]] + data[f["b"] :]
    if k == "dup":
        chunk = data[f["a"] : f["b"]]
        if chunk.strip().isdigit() or not chunk:
            return data  # would multiply an explicit count: not a fault we inject
        return data[: f["b"]] + chunk + data[f["b"] :]
    if k == "swap":
        a, b, c, d = f["a"], f["b"], f["c"], f["d"]
        return data[:a] + data[c:d] + data[b:c] + data[a:b] + data[d:]
    if k == "flip":
        p = f["at"] % n
        old = data[p]
        new = old ^ f["mask"]
        if chr(old).isdigit() or chr(new).isdigit():
            return data  # never create or alter a digit
        return data[:p] + bytes([new]) + data[p + 1 :]
    if k == "nul":
        return data[: f["a"]] + b"\0" * (f["b"] - f["a"]) + data[f["b"] :]
    if k == "string_edit":
        # one character inside a quoted string is lost or replaced; the quotes stay
        spans = [(m.start() + 1, m.end() - 1) for m in re.finditer(rb"'[^'\n]{2,}'", data)]
        if not spans:
            return data
        a, b = spans[f["which"] % len(spans)]
        p = a + f["pos"] % (b - a)
        if chr(data[p]).isdigit():
            return data
        return data[:p] + (b"" if f["mode"] == "delete" else bytes([f["byte"]])) + data[p + 1 :]
    if k == "garbage":
        # a run of arbitrary bytes (corrupted sector); digits are never created or altered
        rng = random.Random(f["seed"])
        out = bytearray(data)
        for p in range(f["a"], min(n, f["b"])):
            r0 = rng.random()
            new = rng.randrange(1, 256) if r0 < 0.4 else (rng.choice([0x81, 0x8D, 0x8F, 0x90, 0x9D, 0x80, 0xC3, 0xE3, 0xFF, 0xFE]) if r0 < 0.55 else ord(rng.choice("!\"#$%&'()*+,-./:;<=>?@[\\]^_`{|}~ \n\t")))
            if chr(out[p]).isdigit() or chr(new).isdigit():
                continue
            out[p] = new
        return bytes(out)
    raise ValueError(k)


def apply_faults(data: bytes, faults: list[dict[str, Any]]) -> bytes:
    for f in faults:
        data = apply_fault(data, f)
    return data


FOR_HEADER = re.compile(r"\.for\b[^{\n]*")
NUM = re.compile(r"0x[0-9a-fA-F]+|0b[01]+|\d+")


def static_loop_guard(text: str) -> int:
    """Largest numeric literal in any .for header of the (faulted) text."""
    big = 0
    for m in FOR_HEADER.finditer(text):
        for lit in NUM.findall(m.group(0)):
            try:
                big = max(big, int(lit, 0) if not lit.isdigit() else int(lit))
            except ValueError:
                pass
    return big


# ---------------------------------------------------------------------------
# workloads


def zoo_workload() -> dict[str, Any]:
    from ..ipsref import encode

    files = {
        "main.s": ZOO.encode("utf-8"),
        "zoo.tbl": b"41=A\n42=B\n43=C\n",
        "zoo.bin": b"\x01\x02\x03",
        "zoo.ips": encode([(0x300000, "plain", b"xyz")]),
    }
    roles = {"main.s": "source", "zoo.tbl": "table", "zoo.bin": "incbin", "zoo.ips": "ips_in"}
    return {"files": files, "roles": roles, "mapping": "low", "target": "main.s", "name": "zoo"}


def zoo_ips_workload() -> dict[str, Any]:
    from ..ipsref import encode

    wl = zoo_workload()
    wl["target"] = "zoo.ips"
    wl["name"] = "zoo_ips"
    wl["files"]["zoo.ips"] = encode([(0x300000, "plain", b"xyz"), (0x300100, "rle", (300, 7)), (0x300400, "plain", bytes(range(40)))])
    return wl


def chain_workload(depth: int) -> dict[str, Any]:
    """'=' symbols defined in reverse dependency order, each mentioning the next one twice."""
    lines = ["*=0x008000"] + [f"s{i} = s{i - 1} + s{i - 1}" for i in range(depth, 0, -1)] + ["s0 = 1", f".db s{depth} & 0xff", ""]
    return {"files": {"main.s": "\n".join(lines).encode()}, "roles": {"main.s": "source"}, "mapping": "low", "target": "main.s", "name": f"symbol_chain_{depth}"}


def nest_workload(depth: int, kind: str) -> dict[str, Any]:
    """A name defined outside and used at the bottom of `depth` nested scopes (blocks, named scopes, .if)."""
    opens = {"block": "{", "scope": ".scope n{i} {{", "if": ".if 1 {", "mixed": None}
    lines = ["*=0x008000", "v_zq = 1", "w_zq := 2"]
    for i in range(depth):
        k = kind if kind != "mixed" else ("block", "scope", "if")[i % 3]
        lines.append(opens[k].format(i=i) if k == "scope" else opens[k])
    lines += ["in_zq:", "inv_zq = 3", ".db v_zq, w_zq", "lda.w #v_zq + w_zq"]
    lines += ["}"] * depth
    lines += [".db v_zq", ""]
    return {"files": {"main.s": "\n".join(lines).encode()}, "roles": {"main.s": "source"}, "mapping": "low", "target": "main.s", "name": f"nest_{kind}_{depth}"}


def zoo_table_workload() -> dict[str, Any]:
    wl = zoo_workload()
    wl["target"] = "zoo.tbl"
    wl["name"] = "zoo_table"
    wl["files"]["zoo.tbl"] = "41=A\n42=B\n43=C\nE9=\u00e9\n8140=\u3042\n".encode("utf-8")
    return wl


def sample_workloads() -> list[dict[str, Any]]:
    out = []
    d = os.path.join(core.REPO, "tests", "samples")
    if os.path.isdir(d):
        for name in sorted(os.listdir(d)):
            if name.endswith(".s"):
                with open(os.path.join(d, name), "rb") as f:
                    data = f.read()
                if len(data) <= 6000:
                    out.append({"files": {"main.s": data}, "roles": {"main.s": "source"}, "mapping": "low", "target": "main.s", "name": "sample:" + name})
    return out


def progen_workload(rng: random.Random) -> dict[str, Any]:
    feats = {x for x in progen.ALL_FEATURES if rng.random() < 0.7} | {"data", "comments"}
    feats -= {"far_banks", "defines"}
    mapping = rng.choice(["low", "high"])
    prog = progen.gen_program(rng, mapping, feats, [], size=rng.choice([6, 10, 14]) if rng.random() < 0.93 else rng.choice([60, 120]))
    files = prog.all_files()
    roles = prog.all_roles()
    target = "main.s"
    incs = sorted(prog.inc_roots)
    if incs and rng.random() < 0.35:
        target = rng.choice(incs)
    tables = sorted(k for k in files if k.endswith((".tbl", ".ips")))
    if tables and rng.random() < 0.25:
        target = rng.choice(tables)  # a damaged table / patch file is an input too: the assembler must still finish
    return {"files": files, "roles": roles, "mapping": mapping, "target": target, "name": "progen"}


def soup_workload(rng: random.Random) -> dict[str, Any]:
    n = rng.choice([1, 2, 3, 5, 8, 13, 21, 30])
    sep = rng.choice([" ", " ", "\n", ""])
    text = sep.join(rng.choice(SOUP_TOKENS) for _ in range(n))
    if rng.random() < 0.5:
        text = "*=0x008000\n" + text
    files = {"main.s": text.encode("utf-8"), "zoo.tbl": b"41=A\n42=B\n43=C\n", "other.s": b"nop\n", "zoo.bin": b"\x01\x02\x03", "data$.bin": b"\x04\x05"}
    roles = {"main.s": "source", "zoo.tbl": "table", "other.s": "include", "zoo.bin": "incbin", "data$.bin": "incbin"}
    if rng.random() < 0.3:
        # a small random graph of include files (cycles, diamonds, helpers of different lengths): a cycle
        # must end in an error, never in an endless expansion
        k = rng.randrange(2, 5)
        files["defs.s"] = "".join(f"gc{j} = {j}\n" for j in range(rng.choice([1, 3, 8, 20]))).encode()
        roles["defs.s"] = "include"
        for i in range(k):
            lines = [rng.choice([f".include 'g{rng.randrange(k)}.s'", f".include 'g{rng.randrange(k)}.s'", ".include 'defs.s'", ".db 1", "nop", f"gl{i}_{j}:", ".include 'other.s'"]) for j in range(rng.randrange(1, 5))]
            files[f"g{i}.s"] = ("\n".join(lines) + "\n").encode()
            roles[f"g{i}.s"] = "include"
        files["main.s"] = (text + ("\n" if text else "") + ".include 'g0.s'\n" + rng.choice(["", "nop\n", ".db 2\n"])).encode("utf-8")
    return {"files": files, "roles": roles, "mapping": rng.choice(["low", "low", "low", "high", "low2"]), "target": "main.s", "name": "soup"}


def gen_case(cseed: int, tier: str) -> dict[str, Any]:
    w = core.substream(cseed, "workload")
    r = w.random()
    if r < 0.6:
        wl = progen_workload(w)
    elif r < 0.85:
        wl = {"soup_batch": [soup_workload(w) for _ in range(150)], "name": "soup_batch"}
    elif r < 0.93:
        wl = zoo_workload()
    else:
        samples = sample_workloads()
        wl = w.choice(samples) if samples else zoo_workload()
    return {"type": "base", "seed": cseed, "workload": wl}


def cli_defines_case() -> dict[str, Any]:
    return {"type": "base", "seed": 96, "workload": {"cli_defines": True, "name": "cli_defines", "files": {"main.s": b"*=0x008000\n.db 1\n.if X {\n    nop\n}\n"}, "roles": {"main.s": "source"}, "mapping": "low", "target": "main.s"}}


def plan(tier: str) -> dict[str, Any]:
    fixed = [cli_defines_case()] + [{"type": "base", "seed": 1, "workload": zoo_workload()}, {"type": "base", "seed": 99, "workload": zoo_table_workload()}, {"type": "base", "seed": 98, "workload": zoo_ips_workload()}, {"type": "base", "seed": 97, "workload": chain_workload(45)}, {"type": "base", "seed": 95, "workload": nest_workload(40, "block")}, {"type": "base", "seed": 94, "workload": nest_workload(60, "mixed")}, {"type": "base", "seed": 93, "workload": nest_workload(40, "scope")}] + [{"type": "base", "seed": 2 + i, "workload": wl} for i, wl in enumerate(sample_workloads())]
    return {"fixed": fixed, "seeded": 56 if tier == "quick" else 0, "chunk": 1, "wall_cap_s": 240, "minimise_s": 40, "max_report": 2}  # every reproduction of a hang costs up to two minutes


# ---------------------------------------------------------------------------


def fault_menu(data: bytes, rng: random.Random, n_seeded: int) -> Iterator[list[dict[str, Any]]]:
    n = len(data)
    if n == 0:
        return
    # EOF at every byte offset (all for small files)
    if n <= 600:
        cuts = list(range(n))
    else:
        toks = token_spans(data)
        cs = {0, 1, n - 1, n - 2}
        for a, b in toks[:: max(1, len(toks) // 150)]:
            cs |= {a, b - 1}
        cs |= {rng.randrange(n) for _ in range(100)}
        cuts = sorted(c for c in cs if 0 <= c < n)
    for at in cuts:
        yield [{"kind": "truncate", "at": at}]
    for how in ("crlf", "cr", "bom", "bom_crlf", "utf16", "ctrl_z", "no_final_newline", "trailing_spaces", "form_feed"):
        yield [{"kind": "recode", "how": how}]
        yield [{"kind": "recode", "how": how}, {"kind": "truncate", "at": rng.randrange(1, n + 1)}]
    toks = token_spans(data)

    def one() -> dict[str, Any]:
        k = rng.choice(["lose", "lose", "dup", "dup", "swap", "flip", "nul", "truncate", "garbage", "garbage", "string_edit", "string_edit"])
        if k == "string_edit":
            return {"kind": "string_edit", "which": rng.randrange(1000), "pos": rng.randrange(1000), "mode": rng.choice(["delete", "replace"]), "byte": ord(rng.choice("[]x'\\ ;/*{}(),.:"))}
        if k == "garbage":
            a = rng.randrange(n)
            return {"kind": "garbage", "a": a, "b": min(n, a + rng.choice([1, 1, 2, 4, 16])), "seed": rng.getrandbits(32)}
        tokgran = rng.random() < 0.5 and len(toks) >= 4
        if k == "truncate":
            return {"kind": "truncate", "at": rng.randrange(n)}
        if k == "flip":
            return {"kind": "flip", "at": rng.randrange(n), "mask": rng.choice([0x01, 0x20, 0x80, 0xFF, 0x08])}
        if k in ("lose", "dup", "nul"):
            if tokgran:
                i = rng.randrange(len(toks))
                j = min(len(toks) - 1, i + rng.randrange(0, 6))
                return {"kind": k, "a": toks[i][0], "b": toks[j][1]}
            a = rng.randrange(n)
            return {"kind": k, "a": a, "b": min(n, a + rng.choice([1, 2, 3, 8, 32, 128, 512]))}
        # swap two disjoint chunks
        if tokgran:
            i, j = sorted(rng.sample(range(len(toks)), 2))
            return {"kind": "swap", "a": toks[i][0], "b": toks[i][1], "c": toks[j][0], "d": toks[j][1]}
        a = rng.randrange(n)
        b = min(n, a + rng.choice([1, 4, 16, 64]))
        c = rng.randrange(b, n) if b < n else b
        d = min(n, c + rng.choice([1, 4, 16, 64]))
        return {"kind": "swap", "a": a, "b": b, "c": c, "d": d}

    for _ in range(n_seeded):
        yield [one() for _ in range(rng.choice([1, 1, 1, 2, 3]))]


def budget1(e0: int) -> int:
    return 100 * e0 + 200_000


ENV_KNOBS: list[dict[str, Any]] = [
    {},
    {},
    {"environ": {"COLUMNS": "0", "LINES": "0"}},
    {"environ": {"COLUMNS": "1"}},
    {"environ": {"COLUMNS": "7", "TERM": "dumb"}},
    {"environ": {"COLUMNS": "100000"}},
    {"environ": {"COLUMNS": "abc", "NO_COLOR": "1"}},
    {"terminal": [0, 0]},
    {"terminal": [1, 1]},
    {"terminal": [3, 2]},
    {"terminal": [80, 24]},
    {"terminal": [100000, 1]},
    {"terminal": "none", "environ": {"COLUMNS": None}},
    {"environ": {"LANG": "C", "LC_ALL": "C", "TZ": "UTC+25", "HOME": "/nonexistent", "TMPDIR": "/nonexistent"}},
]


def env_knobs(case: dict[str, Any]) -> dict[str, Any]:
    """Environment of one execution (terminal size, a few environment variables): a function of the case."""
    k = case.get("env_knob")
    return dict(ENV_KNOBS[k % len(ENV_KNOBS)]) if isinstance(k, int) else {}


def make_spec(entry: str, mapping: str, budget: int, abs_paths: bool = False, case: dict[str, Any] | None = None) -> dict[str, Any]:
    if entry == "cli":
        c = case or {}
        fmt = c.get("cli_format", "ips")
        return {"entry": "cli", "src": "main.s", "out": "out." + fmt, "format": fmt, "mapping": mapping, "defines": [["X", c.get("cli_define", "1")]], "budget": budget, "range_guard": True}
    if entry == "string":
        return {"entry": "string", "src": "main.s", "rom": mapping, "budget": budget, "range_guard": True, "abs_paths": abs_paths}
    return {"entry": "patch", "src": "main.s", "out": "out.ips", "mapping": mapping, "budget": budget, "range_guard": True, "abs_paths": abs_paths}


def run_single(case: dict[str, Any], stats: Stats) -> list[Violation]:
    wl = case["workload"]
    files = dict(wl["files"])
    target = wl["target"]
    original = files[target]
    faulted = apply_faults(original, case["faults"])
    files[target] = faulted
    roles = dict(wl["roles"])
    roles["out.ips"] = "out_ips"
    roles["out.sfc"] = "out_sfc"
    entry = case["entry"]
    if entry == "cli":
        stats.bump("probe:command_line_define_value")
    e0 = int(case.get("e0") or 50_000)
    spec = make_spec(entry, wl["mapping"], budget1(e0), bool(case.get("abs_paths")), case)
    try:
        o = entries.execute_one(files, roles, spec, env_knobs(case), [], mem_bytes=MEM_LIMIT, cpu_s=CPU_STAGE1_S)
    except core.ChildCpuExceeded:
        # no interpreter step went by for seconds of CPU time: a loop inside C code (e.g. a regular expression)
        o = {"kind": "timeout", "cpu": True, "steps": 0, "events": [], "fired": []}
    stats.add_outcome(o)
    changed = faulted != original
    if case["faults"]:
        f0 = case["faults"][0]
        at = f0.get("at", f0.get("a", 0))
        bucket = lexical_bucket(original, at)
        if changed:
            stats.bump(f"probe:fault_in:{bucket}")
            stats.bump(f"fault_applied:{'+'.join(f['kind'] for f in case['faults'])}" if len(case["faults"]) == 1 else "fault_applied:multi")
            stats.state(core.digest(faulted), bucket)
            if target != "main.s":
                stats.bump("probe:truncated_included_file")
            if entry == "patch":
                try:
                    faulted.decode("utf-8")
                except UnicodeDecodeError:
                    stats.bump("probe:torn_utf8_through_file_entry")
    else:
        stats.state(core.digest(faulted), "unfaulted:" + wl["name"])
    ek = env_knobs(case)
    if ek.get("terminal") is not None:
        stats.bump("benign:terminal_size_decided_by_the_simulator")
    if ek.get("environ"):
        stats.bump("benign:environment_variables_decided_by_the_simulator")
    if wl["name"] == "soup":
        stats.bump("probe:token_soup")
        if "g0.s" in files:
            stats.bump("probe:include_graph")
    stats.bump(f"outcome:{o['kind']}" + (":" + o["exc"]["type"] if o.get("exc") else ""))
    mem = o.get("exc", {}) and o["exc"]["type"] == "MemoryError"
    if o["kind"] != "timeout" and not mem:
        return []
    # over the first-stage budget: confirm under the hard budget
    spec2 = make_spec(entry, wl["mapping"], HARD_BUDGET, bool(case.get("abs_paths")), case)
    try:
        o2 = entries.execute_one(files, roles, spec2, env_knobs(case), [], mem_bytes=MEM_LIMIT, wall_s=900, cpu_s=CPU_STAGE2_S)
    except core.ChildCpuExceeded:
        o2 = {"kind": "timeout", "cpu": True, "steps": 0, "events": [], "fired": [], "stuck_in": ["(no Python step for %d s of CPU time: loop inside C code)" % CPU_STAGE2_S]}
    stats.add_outcome(o2)
    stats.bump("second_stage_runs")
    mem2 = o2.get("exc", {}) and o2["exc"]["type"] == "MemoryError"
    if o2["kind"] != "timeout" and not mem2:
        stats.bump("slow_but_finite(no violation)")
        return []
    text = faulted.decode("utf-8", "replace")
    if o2.get("max_loop_span", 0) > 64 or static_loop_guard(text) > 64:
        stats.bump("no_verdict(explicit loop count > 64)")
        return []
    bucket = lexical_bucket(original, case["faults"][0].get("at", case["faults"][0].get("a", 0))) if case["faults"] else "unfaulted"
    what = "ran out of memory (4 GiB)" if mem2 else f"still running after {HARD_BUDGET} interpreter steps"
    if o2.get("cpu"):
        what = f"used {CPU_STAGE2_S} s of CPU time without returning (and without executing Python-level steps)"
    if o2.get("blocked"):
        what = f"blocks forever: {o2['blocked']}"
    tail = text[-60:].replace("\n", "\\n")
    end_bucket = lexical_bucket(faulted, max(0, len(faulted) - 1)) if faulted else "empty"
    sig = f"{entry}:ends_in_{end_bucket}" + (":has_nul" if b"\0" in faulted else "") + (":non_ascii" if any(b > 127 for b in faulted) else "") + (":cpu" if o2.get("cpu") else "") + (":blocked" if o2.get("blocked") else "")
    if entry == "cli":
        sig = "cli:define_value"
        what += f" (command line: -D X={case.get('cli_define')!r} -f {case.get('cli_format')})"
    return [
        Violation(
            "non_termination",
            sig,
            f"{wl['name']} workload, fault {case['faults']} landing in {bucket}: the assembler {what} (fault-free run: {e0} steps; largest explicit loop count seen: {o2.get('max_loop_span', 0)}; innermost frames when the budget ran out: {o2.get('stuck_in')}); faulted text ends with ...{tail!r}",
            case,
            {"steps": o2["steps"], "faulted_len": len(faulted)},
        )
    ]


def expand(case: dict[str, Any], stats: Stats) -> Iterator[dict[str, Any]]:
    wl = case["workload"]
    rng = core.substream(case["seed"], "faults")
    if wl.get("cli_defines"):
        # the command line is input too: a -D value in any spelling must be accepted or refused, in finite time
        for v in CLI_DEFINE_VALUES:
            for fmt in ("ips", "sfc"):
                yield {"type": "single", "workload": wl, "faults": [], "entry": "cli", "e0": 50_000, "cli_define": v, "cli_format": fmt}
        return
    if "soup_batch" in wl:
        for s in wl["soup_batch"]:
            yield {"type": "single", "workload": s, "faults": [], "entry": rng.choice(["string", "string", "patch"]), "e0": 50_000, "abs_paths": rng.random() < 0.3, "env_knob": rng.randrange(len(ENV_KNOBS)) if rng.random() < 0.6 else None}
            data = s["files"]["main.s"]
            if len(data) > 2:
                yield {"type": "single", "workload": s, "faults": [{"kind": "truncate", "at": rng.randrange(1, len(data))}], "entry": "string", "e0": 50_000}
            if rng.random() < 0.15:
                yield {"type": "single", "workload": s, "faults": [{"kind": "recode", "how": rng.choice(["crlf", "cr", "bom", "bom_crlf", "ctrl_z", "trailing_spaces"])}], "entry": rng.choice(["string", "patch"]), "e0": 50_000}
        return
    # fault-free runs measure e0 (per entry point)
    e0: dict[str, int] = {}
    for entry in ("string", "patch"):
        roles = dict(wl["roles"])
        roles["out.ips"] = "out_ips"
        o = entries.execute_one(wl["files"], roles, make_spec(entry, wl["mapping"], 5_000_000), {}, [], mem_bytes=MEM_LIMIT)
        stats.add_outcome(o)
        e0[entry] = o["steps"]
        if o["kind"] == "timeout":
            # the *unfaulted* workload does not finish: judged like any other input (second stage, guards)
            yield {"type": "single", "workload": wl, "faults": [], "entry": entry, "e0": 50_000}
            return
        if o["steps"] > 150_000:
            stats.bump("generator_discard(fault-free run too long)")
            return
    data = wl["files"][wl["target"]]
    for faults in fault_menu(data, rng, 150):
        entry = "patch" if rng.random() < 0.3 else "string"
        yield {"type": "single", "workload": wl, "faults": faults, "entry": entry, "e0": e0[entry], "abs_paths": rng.random() < 0.25, "env_knob": rng.randrange(len(ENV_KNOBS)) if rng.random() < 0.6 else None}


def run_case(case: dict[str, Any], stats: Stats) -> list[Violation]:
    if case.get("type") == "single":
        return run_single(case, stats)
    found: list[Violation] = []
    seen: set[str] = set()
    for sub in expand(case, stats):
        if runner_should_stop():
            break
        for v in run_single(sub, stats):
            key = v.klass + "|" + v.sig
            if key not in seen:
                seen.add(key)
                found.append(v)
        if found:
            break  # a hang costs seconds: report the first one of this workload
    return found


def sample_of(case: dict[str, Any]) -> Any:
    wl = case["workload"]
    if "soup_batch" in wl:
        return {"workload": "soup_batch", "first": wl["soup_batch"][0]["files"]["main.s"].decode("utf-8", "replace")}
    return {"workload": wl["name"], "target": wl["target"], "faults": case.get("faults"), "text": wl["files"][wl["target"]].decode("utf-8", "replace")[:1500]}


def shrink_candidates(case: dict[str, Any]) -> Iterator[dict[str, Any]]:
    if case.get("type") != "single":
        return
    wl = case["workload"]
    # fold the faults into the text, then shrink the text itself
    if case["faults"]:
        files = dict(wl["files"])
        files[wl["target"]] = apply_faults(files[wl["target"]], case["faults"])
        yield dict(case, workload=dict(wl, files=files), faults=[])
        for i in range(len(case["faults"])):
            yield dict(case, faults=case["faults"][:i] + case["faults"][i + 1 :])
        return
    if case["entry"] != "string":
        yield dict(case, entry="string")
    if case.get("env_knob") is not None:
        yield dict(case, env_knob=None)
    if case.get("abs_paths"):
        yield dict(case, abs_paths=False)
    data = wl["files"][wl["target"]]
    n = len(data)
    step = max(1, n // 2)
    while step >= 1:
        for i in range(0, n, step):
            new = data[:i] + data[i + step :]
            if new != data:
                files = dict(wl["files"])
                files[wl["target"]] = new
                yield dict(case, workload=dict(wl, files=files))
        if step == 1:
            break
        step //= 2
    if wl["target"] == "main.s":
        for name in sorted(wl["files"]):
            if name != "main.s":
                files = {k: v for k, v in wl["files"].items() if k != name}
                yield dict(case, workload=dict(wl, files=files))


def evidence(total: Stats, tier: str) -> dict[str, Any]:
    return {
        "components_real": ["a816 scanner, parser, codegen, resolver, emit (string API and assemble_as_patch)", "CPython TextIOWrapper/BufferedReader for the file entry", "kernel tmpfs", "real lock objects behind the blocking seam"],
        "components_stubbed": ["wall time -> deterministic step clock (sys.monitoring)", "raw file layer (SimRaw, no faults injected at this layer for C15: damage is applied to the stored bytes)", "user Writer", "terminal size (os.get_terminal_size) and selected environment variables", "time.sleep -> virtual clock; blocking lock acquire / Condition.wait with nobody to release -> 'blocks forever'"],
        "simulated_time": "interpreter_steps_simulated is the simulated time covered (steps of the deterministic clock)",
        "hard_budget_steps": HARD_BUDGET,
        "exhaustive_within_run": "EOF at every byte offset of every workload file of <= 600 bytes",
        "not_done": "exhaustive enumeration of all short token sequences (model checking); seeded token soup only",
    }
