"""The simulated environment: a sandbox directory on tmpfs and an `open` seam.

`builtins.open` / `io.open` are replaced for the duration of one execution.
For paths inside the sandbox the same stack CPython would build is built on a
raw layer owned by the simulator:

    FileIO -> SimRaw (op counting, role tagging, fault + short-I/O injection)
           -> real io.BufferedReader/Writer/Random (seed-chosen buffer size)
           -> real io.TextIOWrapper for text modes

Everything else passes through to the real `open` and is counted.
"""
from __future__ import annotations

import builtins
import errno as _errno
import io
import os
import random
import shutil
import tempfile
from typing import Any

_REAL_OPEN = io.open

ERRNO_BY_NAME = {
    "ENOENT": _errno.ENOENT,
    "EACCES": _errno.EACCES,
    "EISDIR": _errno.EISDIR,
    "EIO": _errno.EIO,
    "ENOSPC": _errno.ENOSPC,
}

_scratch_counter = 0


def scratch_base() -> str:
    base = os.environ.get("VERIF_SCRATCH")
    if base:
        os.makedirs(base, exist_ok=True)
        return base
    if os.path.isdir("/dev/shm") and os.access("/dev/shm", os.W_OK):
        return "/dev/shm"
    return tempfile.gettempdir()


def new_sandbox() -> str:
    """Create a private directory; the caller removes it with drop_sandbox()."""
    global _scratch_counter
    _scratch_counter += 1
    # fixed-width name: absolute paths can appear inside source text ($ROOT$), and the number of
    # interpreter steps spent scanning them must not depend on how many digits the pid happens to have
    path = os.path.join(scratch_base(), f"a816-verif-{os.getpid():08d}-{_scratch_counter:07d}")
    if os.path.exists(path):
        shutil.rmtree(path, ignore_errors=True)
    os.makedirs(path)
    return path


def sweep_stale_sandboxes() -> int:
    """Remove sandboxes left behind by workers that were killed (their pid is gone)."""
    base = scratch_base()
    n = 0
    try:
        names = os.listdir(base)
    except OSError:
        return 0
    for name in names:
        if not name.startswith("a816-verif-"):
            continue
        parts = name.split("-")
        try:
            pid = int(parts[2])
        except (IndexError, ValueError):
            continue
        try:
            os.kill(pid, 0)
            continue  # owner still alive
        except ProcessLookupError:
            pass
        except PermissionError:
            continue
        shutil.rmtree(os.path.join(base, name), ignore_errors=True)
        n += 1
    return n


def drop_sandbox(path: str) -> None:
    shutil.rmtree(path, ignore_errors=True)


ROOT_TOKEN = b"$ROOT$"


SYMLINK_MARK = b"\x00SYMLINK\x00"


def symlink(target: str) -> bytes:
    """File content that makes populate() create a symbolic link to `target` instead of a file."""
    return SYMLINK_MARK + target.encode()


def populate(root: str, files: dict[str, bytes]) -> None:
    """Write the case's files; in source files the token $ROOT$ stands for the sandbox directory
    (lets a case refer to files by absolute path although the directory is only known at run time)."""
    for rel in sorted(files):
        p = os.path.join(root, rel)
        os.makedirs(os.path.dirname(p), exist_ok=True)
        data = files[rel]
        if data.startswith(SYMLINK_MARK):
            os.symlink(data[len(SYMLINK_MARK) :].decode(), p)
            continue
        if ROOT_TOKEN in data and not rel.endswith((".bin", ".ips", ".sfc", ".smc", ".tbl")):  # source text under any name
            data = data.replace(ROOT_TOKEN, root.encode())
        with _REAL_OPEN(p, "wb") as f:
            f.write(data)


class InjectedFault(OSError):
    """OSError subclass so that the harness can recognise its own faults."""


class SimRaw(io.RawIOBase):
    def __init__(self, env: "SimEnv", path: str, mode: str, role: str, short_ok: bool) -> None:
        super().__init__()
        self._env = env
        self._role = role
        self._short_ok = short_ok
        self._f = io.FileIO(path, mode)
        self.name = path
        self.mode = self._f.mode

    # -- capabilities
    def readable(self) -> bool:
        return self._f.readable()

    def writable(self) -> bool:
        return self._f.writable()

    def seekable(self) -> bool:
        return self._f.seekable()

    def fileno(self) -> int:
        return self._f.fileno()

    def isatty(self) -> bool:
        return False

    # -- I/O
    def readinto(self, b: Any) -> int:
        env = self._env
        env.op("read", self._role)
        mv = memoryview(b).cast("B")
        want = len(mv)
        take = want
        if self._short_ok and env.short_read_rng is not None and want > 1:
            if env.short_read_rng.random() < env.short_rate:
                take = env.short_read_rng.randint(1, want)
                env.count("short_read", self._role)
        data = self._f.read(take)
        n = len(data)
        mv[:n] = data
        env.event("read", self._role, want, n)
        return n

    def write(self, b: Any) -> int:
        env = self._env
        env.op("write", self._role)
        mv = memoryview(b).cast("B")
        want = len(mv)
        take = want
        if self._short_ok and env.short_write_rng is not None and want > 1:
            if env.short_write_rng.random() < env.short_rate:
                take = env.short_write_rng.randint(1, want)
                env.count("short_write", self._role)
        n = self._f.write(mv[:take])
        env.event("write", self._role, want, n)
        return n

    def seek(self, pos: int, whence: int = 0) -> int:
        self._env.event("seek", self._role, pos, whence)
        return self._f.seek(pos, whence)

    def tell(self) -> int:
        return self._f.tell()

    def truncate(self, size: int | None = None) -> int:
        return self._f.truncate(size)

    def flush(self) -> None:
        if not self._f.closed:
            self._f.flush()

    def close(self) -> None:
        if self.closed:
            return
        try:
            super().close()
        finally:
            already = self._f.closed
            self._f.close()
            if not already:
                self._env.event("close", self._role, 0, 0)
                self._env.op("close", self._role)


class ProbedReader(io.BufferedReader):
    """A real BufferedReader that counts how often peek() comes back short.

    'short' = fewer bytes than asked for although at least that many remain
    in the file - legal for peek(), and the state a careless reader trips on.
    """

    _sim_env: "SimEnv | None" = None
    _sim_role = ""

    def peek(self, size: int = 0) -> bytes:  # type: ignore[override]
        data = super().peek(size)
        env = self._sim_env
        if env is not None and size > 0:
            try:
                remaining = os.fstat(self.fileno()).st_size - self.tell()
            except (OSError, ValueError):
                remaining = len(data)
            env.count("peek", self._sim_role)
            if len(data) < size <= remaining:
                env.count("peek_short_with_data_left", self._sim_role)
        return data


class SimEnv:
    """Context manager: one execution's environment."""

    def __init__(
        self,
        root: str,
        roles: dict[str, str] | None = None,
        knobs: dict[str, Any] | None = None,
        faults: list[dict[str, Any]] | None = None,
        cwd: str | None = None,
    ) -> None:
        self.root = os.path.realpath(root)
        self.roles = dict(roles or {})
        self.knobs = dict(knobs or {})
        self.faults = [dict(f) for f in (faults or [])]
        self.cwd = cwd or self.root
        self.log: list[tuple[Any, ...]] = []
        self.fired: list[dict[str, Any]] = []
        self.counts: dict[str, int] = {}
        self.opcount: dict[tuple[str, str], int] = {}
        self.unwrapped_open = 0
        sr = self.knobs.get("short_reads")
        sw = self.knobs.get("short_writes")
        self.short_read_rng = random.Random(sr) if sr is not None else None
        self.short_write_rng = random.Random(sw) if sw is not None else None
        self.short_rate = float(self.knobs.get("short_rate", 0.5))
        self.peek_short = 0

    # -- bookkeeping
    def event(self, op: str, role: str, a: Any = None, b: Any = None) -> None:
        self.log.append((len(self.log), op, role, a, b))

    def count(self, what: str, role: str) -> None:
        k = f"{what}:{role}"
        self.counts[k] = self.counts.get(k, 0) + 1

    def op(self, op: str, role: str) -> None:
        """Count the op and raise if a planned fault matches (role, op, nth)."""
        key = (role, op)
        n = self.opcount.get(key, 0)
        self.opcount[key] = n + 1
        for f in self.faults:
            if f.get("fired"):
                continue
            if f["op"] == op and f["role"] == role and int(f["nth"]) == n:
                f["fired"] = True
                en = ERRNO_BY_NAME[f.get("errno", "EIO")]
                self.fired.append({"op": op, "role": role, "nth": n, "errno": f.get("errno", "EIO")})
                self.event("FAULT", role, op, n)
                raise InjectedFault(en, os.strerror(en) + " [injected]")

    def role_of(self, abspath: str) -> str | None:
        rp = os.path.realpath(abspath)
        if rp == self.root or not rp.startswith(self.root + os.sep):
            return None
        rel = os.path.relpath(rp, self.root)
        return self.roles.get(rel, "other")

    def bufsize_for(self, role: str) -> int | None:
        b = self.knobs.get("bufsize")
        if isinstance(b, dict):
            b = b.get(role, b.get("*"))
        return b

    # -- the seam
    def sim_open(
        self,
        file: Any,
        mode: str = "r",
        buffering: int = -1,
        encoding: str | None = None,
        errors: str | None = None,
        newline: str | None = None,
        closefd: bool = True,
        opener: Any = None,
    ) -> Any:
        if isinstance(file, int) or opener is not None or not closefd:
            self.unwrapped_open += 1
            return _REAL_OPEN(file, mode, buffering, encoding, errors, newline, closefd, opener)
        try:
            path = os.fspath(file)
        except TypeError:
            return _REAL_OPEN(file, mode, buffering, encoding, errors, newline, closefd, opener)
        if isinstance(path, bytes):
            path = os.fsdecode(path)
        # no textual normalisation: 'link/../x' means the parent of the link's *target* to the OS
        abspath = path if os.path.isabs(path) else os.path.join(os.getcwd(), path)
        role = self.role_of(abspath)
        modeset = set(mode)
        if role is None or not modeset <= set("rwaxbt+") or len(modeset) != len(mode):
            self.unwrapped_open += 1
            return _REAL_OPEN(file, mode, buffering, encoding, errors, newline, closefd, opener)
        binary = "b" in modeset
        if binary and (encoding is not None or errors is not None or newline is not None):
            return _REAL_OPEN(file, mode, buffering, encoding, errors, newline, closefd, opener)
        if not binary and buffering == 0:
            return _REAL_OPEN(file, mode, buffering, encoding, errors, newline, closefd, opener)
        rawmode = "".join(c for c in mode if c in "rwax+")
        self.event("open", role, rawmode, None)
        self.op("open", role)
        # a regular file never returns short reads from the raw layer; a FIFO / pipe / network file does.
        # knob "pipe_like": roles whose file behaves like that even when opened unbuffered
        short_ok = buffering != 0 or role in (self.knobs.get("pipe_like") or ())
        raw = SimRaw(self, abspath, rawmode, role, short_ok)
        if buffering == 0:
            return raw
        line_buffering = False
        if buffering == 1 and not binary:
            line_buffering = True
            buffering = -1
        if buffering < 0:
            bs = self.bufsize_for(role) or io.DEFAULT_BUFFER_SIZE
        else:
            bs = buffering
        try:
            if "+" in modeset:
                buf: Any = io.BufferedRandom(raw, bs)
            elif "r" in modeset:
                buf = ProbedReader(raw, bs)
                buf._sim_env = self
                buf._sim_role = role
            else:
                buf = io.BufferedWriter(raw, bs)
        except BaseException:
            raw.close()
            raise
        if binary:
            return buf
        if encoding in (None, "locale") and self.knobs.get("locale_encoding"):
            # the environment decides what "no encoding given" means (LANG / LC_ALL / PYTHONUTF8)
            encoding = self.knobs["locale_encoding"]
            self.count("text_open_with_locale_encoding", role)
        try:
            text = io.TextIOWrapper(buf, encoding, errors, newline, line_buffering)
            text.mode = mode  # type: ignore[misc]
            return text
        except BaseException:
            buf.close()
            raise

    manage_cwd = True  # histories set this to False: the working directory is process state that must
    # be allowed to leak from one operation to the next (the history sets it once, at its start)

    def __enter__(self) -> "SimEnv":
        self._old_cwd = os.getcwd()
        if self.manage_cwd:
            os.chdir(self.cwd)
        self._old_open = (builtins.open, io.open)
        builtins.open = self.sim_open  # type: ignore[assignment]
        io.open = self.sim_open  # type: ignore[assignment]
        return self

    def __exit__(self, *exc: Any) -> None:
        builtins.open, io.open = self._old_open  # type: ignore[assignment]
        if self.manage_cwd:
            try:
                os.chdir(self._old_cwd)
            except OSError:
                pass

    # -- summaries
    def points(self) -> list[tuple[str, str, int]]:
        """All (role, op, nth) fault points this execution passed through."""
        out = []
        for (role, op), n in sorted(self.opcount.items()):
            for k in range(n):
                out.append((role, op, k))
        return out

    def log_digest(self) -> str:
        from .core import digest

        return digest(self.log)


def read_real(path: str) -> bytes | None:
    try:
        with _REAL_OPEN(path, "rb") as f:
            return f.read()
    except OSError:
        return None
