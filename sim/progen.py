"""progen - seeded generator of valid-by-construction a816 programs.

A program is a tree of statement nodes so that (a) error statements can be
inserted at any *slot* (a position in any statement list), (b) statements can
be removed structurally during minimisation, and (c) the generator knows for
each slot whether statements placed there are *assembled* (as opposed to only
scanned and parsed: untaken .if branches, bodies of macros never applied).

The generator stays inside a conservative subset of the language (explicit
sizes on every operand that mentions an identifier, local short branches, no
RAM->ROM branches, no stacked unary operators ...).  Oracles built on it are
differential or classificatory: none needs to know what the bytes should be.
"""
from __future__ import annotations

import random
import re
from typing import Any, Iterator

Node = dict[str, Any]

MAPPINGS = ("low", "low2", "high")

ALL_FEATURES = (
    "data",
    "symbols",
    "branches",
    "blocks",
    "scopes",
    "macros",
    "if",
    "for",
    "include",
    "incbin",
    "table",
    "comments",
    "reloc",
    "far_banks",
    "map",
    "defines",
    "code_lookup",
    "branch_edges",
    "ips",
    "overlap",
    "abs_paths",
    "zero_block",
    "lexvar",
    "nested_include",
    "local_table",
    "leading_code",
)
# "big_incbin" (a >64 KiB contiguous block) is opt-in: callers add it explicitly with a low probability.
# "avoid_first_bank" is opt-in too: the program leaves the first 64 KiB of the image alone.

SPECIAL_LABEL_NAMES = ["_start", "loop_1", "Main", "nmi", "reset", "irq_handler", "EOF", "PATCH", "a1", "x2", "s_", "db_table", "text1", "A_VERY_LONG_LABEL_NAME_THAT_GOES_ON_AND_ON_0123456789", "l", "O0", "macro_1", "if_1", "scope1", "End"]
NAKED = "nop inx iny dex dey clc sec sei pha pla phx plx phy ply php plp tax tay txa tya xba xce inc dec asl lsr ror rol phb plb phd pld phk tcd tcs tdc tsc tsx txs txy tyx".split()
IMM_BW = "lda ldx ldy cmp adc sbc and cpx cpy bit".split()  # .b and .w immediates
DIRECT_BWL = "lda sta adc and cmp sbc".split()  # direct b / w / l
DIRECT_BW = "ldx ldy stx sty stz inc dec asl lsr rol ror bit cpx cpy trb tsb".split()
BRANCHES = "bra beq bne bcc bcs bmi bpl".split()


# ---------------------------------------------------------------------------
# address maps (independent arithmetic, used to place sections and decode tables)


def phys(mapping: str, addr: int) -> int:
    bank, off = addr >> 16, addr & 0xFFFF
    if mapping in ("low", "low2", "low2u", "any"):
        b = bank - 0x80 if bank >= 0x80 else bank
        return b * 0x8000 + (off & 0x7FFF)
    b = bank - 0xC0 if bank >= 0xC0 else bank - 0x40
    return b * 0x10000 + off


def pick_bank(rng: random.Random, mapping: str, far: bool, used: set[int]) -> int:
    for _ in range(200):
        if mapping == "low":
            base = rng.choice([0x00, 0x80])
            b = base + (rng.randrange(0, 0x50 if base else 0x70) if far else rng.randrange(0, 8))
        elif mapping == "low2u":
            # banks only the second LoROM variant has (0xD0-0xFF)
            b = 0xD0 + (rng.randrange(0, 0x30) if far else rng.randrange(0, 8))
        elif mapping == "low2":
            b = 0x80 + (rng.randrange(0, 0x50) if far else rng.randrange(0, 8))
        elif mapping == "any":
            # banks 0xC0-0xCF with offsets >= 0x8000 are ROM under low (mirror), low2 and high alike
            b = 0xC0 + (rng.randrange(0, 0x10) if far else rng.randrange(0, 8))
        else:
            base = rng.choice([0x40, 0xC0])
            b = base + (rng.randrange(0, 0x3E if base == 0x40 else 0x40) if far else rng.randrange(0, 4))
        key = phys(mapping, (b << 16) | 0x8000) >> 15
        if key not in used:
            used.add(key)
            return b
    if not far:
        return pick_bank(rng, mapping, True, used)  # the near banks are all taken: go further out
    raise RuntimeError("no free bank")


def pick_offset(rng: random.Random, mapping: str) -> int:
    lo = 0x8000 if mapping in ("low", "low2", "any") else rng.choice([0x0000, 0x8000])
    return lo + rng.choice([0, 0, 0x10, 0x123, 0x1000, 0x3FF0, 0x5000, 0x6F00])


# ---------------------------------------------------------------------------
# nodes


def stmt(text: str, kind: str = "stmt") -> Node:
    return {"k": kind, "t": text}


def block(head: str, body: list[Node], kind: str, assembled: bool = True, tail: str = "}") -> Node:
    return {"k": kind, "t": head, "body": body, "tail": tail, "assembled": assembled}


def render_nodes(nodes: list[Node], indent: int = 0) -> list[str]:
    pad = "    " * indent
    out: list[str] = []
    for n in nodes:
        if "body" in n:
            out.append(pad + n["t"])
            out += render_nodes(n["body"], indent + 1)
            if n.get("else_body") is not None:
                out.append(pad + "} else {")
                out += render_nodes(n["else_body"], indent + 1)
            out.append(pad + n["tail"])
        else:
            for line in n["t"].split("\n"):
                out.append(pad + line)
    return out


def render(nodes: list[Node]) -> str:
    return "\n".join(render_nodes(nodes)) + "\n"


class Prog:
    def __init__(self) -> None:
        self.mapping = "low"
        self.root: list[Node] = []
        self.inc_roots: dict[str, list[Node]] = {}  # included file -> its statement list
        self.files: dict[str, bytes] = {}  # non-source files (incbin, table, ips)
        self.roles: dict[str, str] = {}
        self.defines: list[tuple[str, str]] = []
        self.global_labels: list[str] = []  # referenceable from top level (incl. scope.name)
        self.local_labels: list[str] = []  # defined in blocks (outside loops / macro bodies)
        self.label_sites: list[tuple[str, bool, str | None]] = []  # (name, outside .for bodies, macro it sits in)
        self.tainted_macros: list[str] = []  # macros applied from inside a .for body or another macro body
        self.table_addr: int | None = None  # logical address of the trailing label table
        self.features: list[str] = []
        self.unmapped_addr = 0

    def symfile_label_names(self) -> list[str]:
        """Label names all of whose definition sites lie outside loop iterations."""
        bad = {n for n, outside, macro in self.label_sites if not outside or (macro is not None and macro in self.tainted_macros)}
        return sorted({n for n, _o, _m in self.label_sites} - bad)

    # -- materialisation
    def source_files(self) -> dict[str, bytes]:
        out = {"main.s": render(self.root).encode("utf-8")}
        for rel, nodes in self.inc_roots.items():
            out[rel] = render(nodes).encode("utf-8")
        return out

    def all_files(self) -> dict[str, bytes]:
        out = dict(self.files)
        out.update(self.source_files())
        return out

    def all_roles(self) -> dict[str, str]:
        roles = dict(self.roles)
        roles["main.s"] = "source"
        for rel in self.inc_roots:
            roles[rel] = "include"
        return roles

    def to_record(self) -> dict[str, Any]:
        return {
            "mapping": self.mapping,
            "root": self.root,
            "inc_roots": self.inc_roots,
            "files": self.files,
            "roles": self.roles,
            "defines": [list(d) for d in self.defines],
            "global_labels": self.global_labels,
            "local_labels": self.local_labels,
            "label_sites": [list(x) for x in self.label_sites],
            "tainted_macros": self.tainted_macros,
            "table_addr": self.table_addr,
            "features": self.features,
            "unmapped_addr": self.unmapped_addr,
        }

    @staticmethod
    def from_record(r: dict[str, Any]) -> "Prog":
        p = Prog()
        p.mapping = r["mapping"]
        p.root = r["root"]
        p.inc_roots = r["inc_roots"]
        p.files = r["files"]
        p.roles = r["roles"]
        p.defines = [tuple(d) for d in r["defines"]]  # type: ignore[misc]
        p.global_labels = r["global_labels"]
        p.local_labels = r["local_labels"]
        p.label_sites = [tuple(x) for x in r.get("label_sites", [])]  # type: ignore[misc]
        p.tainted_macros = list(r.get("tainted_macros", []))
        p.table_addr = r["table_addr"]
        p.features = r["features"]
        p.unmapped_addr = r.get("unmapped_addr", 0)
        return p


# ---------------------------------------------------------------------------
# slots


def recompute_assembled(prog: Prog) -> None:
    """A macro body is assembled iff the macro is applied from an assembled context (fixpoint)."""

    def walk(nodes: list[Node], asm: bool, applied_prev: set[str], applied: set[str]) -> None:
        for n in nodes:
            if n["k"] == "apply" and asm:
                applied.add(n["t"].split("(")[0].strip())
            if "body" in n:
                if n["k"] == "macro_def" and "macro" in n:
                    n["assembled"] = n["macro"] in applied_prev
                walk(n["body"], asm and bool(n.get("assembled", True)), applied_prev, applied)
                if n.get("else_body") is not None:
                    walk(n["else_body"], asm and bool(n.get("else_assembled", False)), applied_prev, applied)

    prev: set[str] = set()
    for _ in range(8):
        cur: set[str] = set()
        walk(prog.root, True, prev, cur)
        live = live_includes(prog)  # an included file nobody includes any more assembles (and applies) nothing
        for rel, nodes in prog.inc_roots.items():
            walk(nodes, rel in live, prev, cur)
        if cur == prev:
            break
        prev = cur


def static_label_counts(prog: Prog) -> dict[str, int]:
    """How many times each label name is *defined by an assembled statement* outside macro bodies and
    .for bodies - known from the program tree alone, without running the assembler."""
    recompute_assembled(prog)
    counts: dict[str, int] = {}

    def walk(nodes: list[Node], asm: bool) -> None:
        for n in nodes:
            if n["k"] == "label" and asm:
                name = n["t"].strip().rstrip(":")
                counts[name] = counts.get(name, 0) + 1
            if "body" in n and n["k"] not in ("macro_def", "for"):
                walk(n["body"], asm and bool(n.get("assembled", True)))
                if n.get("else_body") is not None:
                    walk(n["else_body"], asm and bool(n.get("else_assembled", False)))

    walk(prog.root, True)
    for nodes in prog.inc_roots.values():
        walk(nodes, True)
    return counts


def iter_slots(prog: Prog) -> Iterator[dict[str, Any]]:
    """Every position where a statement can be inserted.

    yields {"file", "path": [(index, which)...], "pos", "assembled", "ctx", "last"}
    path addresses the statement list: start at the file's root list, then for
    each (index, which) descend into node[index]["body" | "else_body"].
    """

    def walk(file: str, nodes: list[Node], path: list[tuple[int, str]], assembled: bool, ctx: str, top: bool) -> Iterator[dict[str, Any]]:
        for pos in range(len(nodes) + 1):
            yield {"file": file, "path": list(path), "pos": pos, "assembled": assembled, "ctx": ctx, "last": top and pos == len(nodes)}
        for i, n in enumerate(nodes):
            if "body" in n:
                a = assembled and bool(n.get("assembled", True))
                yield from walk(file, n["body"], path + [(i, "body")], a, n["k"], False)
                if n.get("else_body") is not None:
                    ea = assembled and bool(n.get("else_assembled", False))
                    yield from walk(file, n["else_body"], path + [(i, "else_body")], ea, n["k"] + "_else", False)

    recompute_assembled(prog)
    live = live_includes(prog)
    yield from walk("main.s", prog.root, [], True, "top", True)
    for rel in sorted(prog.inc_roots):
        # statements of an included file are assembled only while an assembled '.include' still names it
        # (a minimiser step may have removed that statement)
        yield from walk(rel, prog.inc_roots[rel], [], rel in live, "included_file", True)


def live_includes(prog: Prog) -> set[str]:
    """Included files reachable from main.s through '.include' statements in assembled positions."""

    def includes_in(nodes: list[Node], asm: bool) -> Iterator[str]:
        for n in nodes:
            if n["k"] == "include" and asm:
                for rel in prog.inc_roots:
                    if f"'{rel}'" in n["t"] or f"/{rel}'" in n["t"]:
                        yield rel
            if "body" in n:
                yield from includes_in(n["body"], asm and bool(n.get("assembled", True)))
                if n.get("else_body") is not None:
                    yield from includes_in(n["else_body"], asm and bool(n.get("else_assembled", False)))

    live: set[str] = set()
    todo = list(includes_in(prog.root, True))
    while todo:
        rel = todo.pop()
        if rel not in live:
            live.add(rel)
            todo += list(includes_in(prog.inc_roots[rel], True))
    return live


def _copy_nodes(nodes: list[Node]) -> list[Node]:
    out = []
    for n in nodes:
        m = dict(n)
        if "body" in m:
            m["body"] = _copy_nodes(m["body"])
        if m.get("else_body") is not None:
            m["else_body"] = _copy_nodes(m["else_body"])
        out.append(m)
    return out


def clone(prog: Prog) -> Prog:
    p = Prog.from_record(prog.to_record())
    p.root = _copy_nodes(prog.root)
    p.inc_roots = {k: _copy_nodes(v) for k, v in prog.inc_roots.items()}
    p.files = dict(prog.files)
    p.roles = dict(prog.roles)
    return p


def _list_at(prog: Prog, file: str, path: list[tuple[int, str]]) -> list[Node]:
    nodes = prog.root if file == "main.s" else prog.inc_roots[file]
    for idx, which in path:
        nodes = nodes[idx][which]
    return nodes


def insert_at(prog: Prog, slot: dict[str, Any], node: Node) -> Prog:
    p = clone(prog)
    _list_at(p, slot["file"], [tuple(x) for x in slot["path"]]).insert(slot["pos"], node)  # type: ignore[misc]
    return p


def iter_removals(prog: Prog, with_node: bool = False) -> Iterator[Prog]:
    """Programs with one statement (or one whole block) removed, outermost first."""

    def walk(file: str, nodes: list[Node], path: list[tuple[int, str]]) -> Iterator[tuple[str, list[tuple[int, str]], int]]:
        for i in range(len(nodes)):
            yield file, path, i
        for i, n in enumerate(nodes):
            if "body" in n:
                yield from walk(file, n["body"], path + [(i, "body")])
                if n.get("else_body") is not None:
                    yield from walk(file, n["else_body"], path + [(i, "else_body")])

    targets = list(walk("main.s", prog.root, []))
    for rel in sorted(prog.inc_roots):
        targets += list(walk(rel, prog.inc_roots[rel], []))
    for file, path, i in targets:
        p = clone(prog)
        lst = _list_at(p, file, path)
        if lst[i].get("keep"):
            continue
        removed = lst[i]
        del lst[i]
        if with_node:
            yield p, removed, file  # type: ignore[misc]
        else:
            yield p


def count_statements(prog: Prog) -> int:
    def cnt(nodes: list[Node]) -> int:
        n = 0
        for x in nodes:
            n += 1
            if "body" in x:
                n += cnt(x["body"])
            if x.get("else_body") is not None:
                n += cnt(x["else_body"])
        return n

    return cnt(prog.root) + sum(cnt(v) for v in prog.inc_roots.values())


# ---------------------------------------------------------------------------
# the generator


class Gen:
    def __init__(self, rng: random.Random, mapping: str, feats: set[str], defines: list[tuple[str, str]] | None = None, size: int = 12, prefix: str = "") -> None:
        self.prefix = prefix
        self.rng = rng
        self.mapping = mapping
        self.feats = feats
        self.size = size
        self.prog = Prog()
        self.prog.mapping = mapping
        self.prog.features = sorted(feats)
        self.n = 0
        self.globals: list[str] = []  # label names referenceable from anywhere (explicit size)
        self.assigned: list[str] = []  # ':=' constants (usable at codegen time)
        self.small_assigned: list[str] = []  # ':=' constants with value in 1..4
        self.eq_syms: list[str] = []  # '=' constants defined at top level
        self.macros: list[tuple[str, int]] = []
        self.has_table = False
        self.table_chars = ""
        self.used_banks: set[int] = set()
        if "avoid_first_bank" in feats:
            self.used_banks |= {0, 1}  # opt-in: nothing is placed in the first 64 KiB of the image
        self.defines = list(defines or [])
        self.prog.defines = list(self.defines)
        for name, value in self.defines:
            v = int(value, 0)
            self.assigned.append(name)
            if 1 <= v <= 4:
                self.small_assigned.append(name)
        self.budget = 0
        self.cur_for = 0
        self.cur_macro: str | None = None
        self.body_names: list[set[str]] = [set()]
        self.edges = 0
        self.n_ips = 0
        self.pending_guards: list[str] = []

    def ref(self, rel: str) -> str:
        """How a file is named inside the source: relative, or absolute through the $ROOT$ token."""
        if "abs_paths" in self.feats and self.rng.random() < 0.5:
            return "$ROOT$/" + rel
        return rel

    def note_label(self, name: str) -> None:
        self.prog.label_sites.append((name, self.cur_for == 0, self.cur_macro))

    def uid(self) -> int:
        self.n += 1
        return self.n

    # -- expressions
    def lit(self, bits: int) -> str:
        v = self.rng.randrange(1 << (bits - 4), 1 << bits) if bits > 4 else self.rng.randrange(0, 16)
        r = self.rng.random()
        if r < 0.7:
            return hex(v)
        if r < 0.85 and bits <= 8:
            return bin(v)
        return str(v)

    def const_name(self) -> str | None:
        pool = self.assigned + self.eq_syms
        return self.rng.choice(pool) if pool else None

    def data_expr(self, allow_labels: bool = True) -> str:
        """Expression for data directives (lexed by the initial state: + - & * << >> only)."""
        r = self.rng.random()
        atoms: list[str] = [self.lit(self.rng.choice([4, 8, 8, 12, 16, 24]))]
        if allow_labels and self.globals and r < 0.35:
            atoms = [self.rng.choice(self.globals)]
        elif r < 0.5:
            c = self.const_name()
            if c:
                atoms = [c]
        r2 = self.rng.random()
        if r2 < 0.6:
            return atoms[0]
        op = self.rng.choice(["+", "-", "&", "*", "<<", ">>"])
        rhs = str(self.rng.randrange(1, 5)) if op in ("<<", ">>", "*") else self.lit(8)
        e = f"{atoms[0]} {op} {rhs}"
        if self.rng.random() < 0.2:
            e = f"({e}) + 1"
        return e

    def operand_expr_ident(self) -> str | None:
        """An identifier-bearing operand expression (needs an explicit size)."""
        pool = self.globals + self.assigned + self.eq_syms
        if not pool:
            return None
        name = self.rng.choice(pool)
        r = self.rng.random()
        if r < 0.6:
            return name
        op = self.rng.choice(["+", "-", "&", "|", ">>"])
        rhs = {"+": "1", "-": "1", "&": "0xff", "|": "1", ">>": "8"}[op]
        return f"{name} {op} {rhs}"

    # -- single statements
    def simple_instr(self) -> Node:
        """One instruction, with seeded lexical variation that must not change its meaning:
        upper-case mnemonic / size suffix / index register (never inside parentheses), extra blanks,
        tabs, a trailing ';' comment."""
        n = self._simple_instr_base()
        if "lexvar" not in self.feats:
            return n
        rng = self.rng
        t = n["t"]
        if "\n" in t:
            return n
        r = rng.random()
        if r < 0.15:
            head, sep, rest = t.partition(" ")
            t = head.upper() + sep + rest  # mnemonic and size suffix
        elif r < 0.25 and "(" not in t and "[" not in t and re.search(r",[xys]$", t):
            t = t[:-1] + t[-1].upper()
        elif r < 0.35:
            t = t.replace(" ", "  ", 1)
        if rng.random() < 0.15 and "'" not in t:
            t = t + rng.choice([" ; note", "\t; x", " ;", " ; lda #1"])
        n["t"] = t
        return n

    def _simple_instr_base(self) -> Node:
        r = self.rng.random()
        rng = self.rng
        if r < 0.25:
            return stmt(rng.choice(NAKED))
        if r < 0.40:
            op = rng.choice(IMM_BW)
            if rng.random() < 0.5:
                return stmt(f"{op} #{self.lit(rng.choice([8, 16]))}")
            sz = rng.choice("bw")
            return stmt(f"{op}.{sz} #{self.lit(8 if sz == 'b' else 16)}")
        if r < 0.46:
            if rng.random() < 0.3:
                # negative operands (width is inferred from the value)
                return stmt(rng.choice(["lda #-1", "lda #-2", "ldx #-1", "lda -1", "cmp #-16", "adc #0 - 3"]))
            return stmt(f"{rng.choice(['rep', 'sep'])} #{rng.choice(['0x30', '0x20', '0x10'])}")
        if r < 0.58:
            op = rng.choice(DIRECT_BWL)
            return stmt(f"{op} {self.lit(rng.choice([8, 16, 24]))}")
        if r < 0.66:
            op = rng.choice(DIRECT_BW)
            return stmt(f"{op} {self.lit(rng.choice([8, 16]))}")
        if r < 0.74:
            form = rng.choice(["lda {v16},x", "lda {v16},y", "sta {v8},x", "lda {v8},s", "sta {v16},x", "ldx {v8},y", "ldy {v16},x", "inc {v8},x", "stz {v16},x", "lda {v24},x"])
            return stmt(form.format(v8=self.lit(8), v16=self.lit(16), v24=self.lit(24)))
        if r < 0.82:
            form = rng.choice(["lda ({v8})", "lda ({v8}),y", "lda [{v8}]", "lda [{v8}],y", "lda ({v8},x)", "sta ({v8}),y", "sta [{v8}]", "adc ({v8})", "eor ({v8},x)", "eor [{v8}]", "pei ({v8})"])
            return stmt(form.format(v8=self.lit(8)))
        if r < 0.86:
            return stmt(rng.choice(["jmp ({v16})", "jmp [{v16}]", "jsr {v16}", "jmp {v16}", "pea.w {v16}", "jsr.l {v24}", "jmp.l {v24}"]).format(v16=self.lit(16), v24=self.lit(24)))
        e = self.operand_expr_ident()
        if e is None:
            return stmt("nop")
        form = rng.choice(
            ["lda.w {e}", "lda.l {e}", "sta.w {e}", "sta.l {e}", "lda.b {e}", "jsr.w {e}", "jsr.l {e}", "jmp.w {e}", "jmp.l {e}", "lda.w #{e}", "lda.b #{e}", "ldx.w #{e}", "lda.w {e},x", "lda.l {e},x", "pea.w {e}", "cmp.w #{e}", "stz.w {e}", "inc.w {e}"]
        )
        return stmt(form.format(e=e))

    def data_stmt(self) -> Node:
        rng = self.rng
        r = rng.random()
        if r < 0.3:
            return stmt(".db " + ", ".join(self.data_expr() for _ in range(rng.randrange(1, 5))))
        if r < 0.55:
            return stmt(".dw " + ", ".join(self.data_expr() for _ in range(rng.randrange(1, 4))))
        if r < 0.7:
            return stmt(".dl " + ", ".join(self.data_expr() for _ in range(rng.randrange(1, 3))))
        if r < 0.8:
            return stmt(".pointer " + self.data_expr())
        text = "".join(rng.choice("ABCDEFGHIJ klmnop0123!?") for _ in range(rng.randrange(1, 12) if rng.random() < 0.85 else rng.randrange(30, 70)))
        if self.has_table and rng.random() < 0.5:
            text = "".join(rng.choice(self.table_chars) for _ in range(rng.randrange(1, 10)))
            if rng.random() < 0.3:
                # raw-byte escape inside the text
                k = rng.randrange(0, len(text) + 1)
                text = text[:k] + f"[0x{rng.randrange(256):02x}]" + text[k:]
            return stmt(f".text '{text}'")
        if "lexvar" in self.feats and rng.random() < 0.15:
            k = rng.randrange(0, len(text) + 1)
            text = text[:k] + "\\'" + text[k:]  # an escaped quote inside the string
        if rng.random() < 0.12:
            # characters outside ASCII in an emitted string: precomposed, decomposed (letter + combining mark),
            # compatibility forms - the text must reach the assembler exactly as stored
            k = rng.randrange(0, len(text) + 1)
            text = text[:k] + rng.choice(["e\u0301", "\u00e9", "\u65e5", "a\u030a", "\ufb01", "\u212b", "o\u0308u\u0308", "\u1e9b\u0323"]) + text[k:]
        return stmt(f".ascii '{text}'")

    def comment(self) -> Node:
        rng = self.rng
        if rng.random() < 0.5:
            return stmt("; " + rng.choice(["note", "lda #0x10 ; not code", "{ unbalanced (", "it's fine", "*/ stray", ".macro x(", "caf\u00e9 \u2615 \u65e5\u672c\u8a9e", "\u00e9" * 9]), "comment")
        body = rng.choice(["block comment", "multi\nline { ' (\ncomment", "lda #1", "**", "; inner"])
        return stmt(f"/* {body} */", "comment")

    def branch_chunk(self) -> list[Node]:
        rng = self.rng
        lbl = f"k{self.uid()}"
        self.note_label(lbl)
        inner = [self.plain_instr() for _ in range(rng.randrange(0, 5))]
        br = stmt(f"{rng.choice(BRANCHES)} {lbl}")
        if rng.random() < 0.5:
            return [stmt(f"{lbl}:", "label")] + inner + [br]
        return [br] + inner + [stmt(f"{lbl}:", "label")]

    def plain_instr(self) -> Node:
        # instruction without identifiers: <= 4 bytes, safe between a branch and its label
        for _ in range(10):
            s = self.simple_instr()
            if "." not in s["t"].split(" ")[0] or "#0" in s["t"] or "#1" in s["t"]:
                return s
        return stmt("nop")

    # -- statement lists
    def body(self, depth: int, in_loop_or_macro: bool, params: list[str] | None = None, want: int | None = None, new_scope: bool = True) -> list[Node]:
        """new_scope=False for .if / .else bodies: they do not open a scope of their own, so label
        names used there share the name set of the enclosing body."""
        rng = self.rng
        out: list[Node] = []
        n = want if want is not None else rng.randrange(1, 5)
        if new_scope:
            self.body_names.append(set())
        for _ in range(n):
            out += self.statement(depth, in_loop_or_macro, params)
        if new_scope:
            self.body_names.pop()
        return out

    def statement(self, depth: int, in_lm: bool, params: list[str] | None = None) -> list[Node]:
        rng = self.rng
        f = self.feats
        self.budget -= 1
        choices: list[tuple[str, float]] = [("instr", 5.0)]
        if "data" in f:
            choices.append(("data", 3.0))
        if "comments" in f:
            choices.append(("comment", 1.0))
        if "branches" in f:
            choices.append(("branch", 1.5))
        choices.append(("label", 1.5 if not in_lm else 0.7))
        if "branch_edges" in f and self.edges < 2 and depth <= 1:
            choices.append(("branch_edge", 0.5))
        if "symbols" in f:
            choices.append(("assign", 1.0))
            if depth == 0:
                choices.append(("eq", 0.7))
        if params:
            choices.append(("param_use", 3.0))
        if depth < 2 and self.budget > 0:
            if "blocks" in f:
                choices.append(("block", 1.0))
            if "if" in f:
                choices.append(("if", 1.0))
            if "for" in f:
                choices.append(("for", 0.8))
            if "macros" in f and self.macros:
                choices.append(("apply", 1.5))
            if "code_lookup" in f and depth == 0 and not in_lm:
                choices.append(("code_lookup", 0.4))
        if depth == 0 and not in_lm:
            if "scopes" in f:
                choices.append(("scope", 0.7))
            if "macros" in f and len(self.macros) < 3:
                choices.append(("macro_def", 1.0))
            if "incbin" in f:
                choices.append(("incbin", 0.6))
            if "ips" in f and self.n_ips < 2:
                choices.append(("ips", 0.6))
            if "table" in f and not self.has_table:
                choices.append(("table", 0.8))
            if "symbols" in f and ("blocks" in f or "macros" in f):
                choices.append(("shadow", 0.5))
        total = sum(w for _, w in choices)
        x = rng.random() * total
        kind = choices[-1][0]
        for k, w in choices:
            x -= w
            if x < 0:
                kind = k
                break
        if kind == "shadow":
            # a top-level name that an inner scope (a block, a macro parameter) defines again: inside, the
            # inner value counts; afterwards the top-level one must still be what a reference sees
            name = f"SH{self.uid()}"
            if rng.random() < 0.3:
                # a label and a later '=' of the same name in the same scope (only a warning): the label keeps
                # its address in the symbol file - the same address as the twin label defined at the same spot
                self.note_label(name)
                self.note_label(name + "_tw")
                return [stmt(f"{name}:", "label"), stmt(f"{name}_tw:", "label"), self.simple_instr(), stmt(f"{name} = {self.lit(rng.choice([8, 16, 24]))}")]
            how = rng.choice(["eq", "assign", "label"])
            head = {"eq": stmt(f"{name} = {self.lit(8)}"), "assign": stmt(f"{name} := {self.lit(8)}"), "label": stmt(f"{name}:", "label")}[how]
            if how == "label":
                self.note_label(name)
            use = stmt(f".db {name} & 0xff") if how != "label" else stmt(f".dl {name}")
            if "macros" in f and rng.random() < 0.5:
                mname = f"msh{self.uid()}"
                mdef = block(f".macro {mname}({name}) {{", [stmt(f".db {name} & 0xff")], "macro_def", assembled=True)
                mdef["macro"] = mname
                self.applied.add(mname)
                return [head, mdef, stmt(f"{mname}({self.lit(8)})", "apply"), use]
            inner_def = stmt(f"{name} = {self.lit(8)}") if rng.random() < 0.6 else stmt(f"{name}:", "label")
            inner = [inner_def, stmt(f".db {name} & 0xff"), self.simple_instr()]
            return [head, block("{", inner, "block"), use]
        if kind == "instr":
            return [self.simple_instr()]
        if kind == "data":
            return [self.data_stmt()]
        if kind == "comment":
            return [self.comment()]
        if kind == "branch":
            return self.branch_chunk()
        if kind == "label":
            if depth == 0 and not in_lm:
                name = f"L{self.uid()}"
                special = [n for n in SPECIAL_LABEL_NAMES if self.prefix + n not in self.globals]
                if special and rng.random() < 0.12:
                    name = self.prefix + rng.choice(special)  # names a user would really pick
                    self.uid()
                self.globals.append(name)
                self.prog.global_labels.append(name)
            else:
                # local labels reuse a small pool of names across blocks / scopes / macro bodies
                free = [n for n in ("loc0", "loc1", "loc2", "loc3") if n not in self.body_names[-1]]
                name = rng.choice(free) if free and rng.random() < 0.8 else f"L{self.uid()}"
                self.body_names[-1].add(name)
                self.prog.local_labels.append(name)
            self.note_label(name)
            return [stmt(f"{name}:", "label")]
        if kind == "branch_edge":
            # a short branch at the very edge of its range: +127 forward, -128 backward (both valid)
            self.edges += 1
            lbl = f"e{self.uid()}"
            self.note_label(lbl)
            op = rng.choice(BRANCHES)
            words = ", ".join(["0"] * 63)
            if rng.random() < 0.5:
                return [stmt(f"{op} {lbl}"), stmt(f".dw {words}\n.db 0", "filler"), stmt(f"{lbl}:", "label")]
            return [stmt(f"{lbl}:", "label"), stmt(f".dw {words}", "filler"), stmt(f"{op} {lbl}")]
        if kind == "assign":
            name = f"A{self.uid()}"
            if rng.random() < 0.4:
                v = rng.randrange(1, 5)
                node = stmt(f"{name} := {v}")
                if depth == 0 and not in_lm:
                    self.small_assigned.append(name)
            else:
                base = rng.choice(self.assigned) if self.assigned and rng.random() < 0.3 else None
                node = stmt(f"{name} := {base} + {self.lit(8)}" if base else f"{name} := {self.lit(rng.choice([8, 16, 24]))}")
            if depth == 0 and not in_lm:
                self.assigned.append(name)
            return [node]
        if kind == "eq":
            name = f"E{self.uid()}"
            base = None
            r = rng.random()
            if r < 0.3 and self.globals:
                base = rng.choice(self.globals)
            elif r < 0.5 and self.assigned:
                base = rng.choice(self.assigned)
            node = stmt(f"{name} = {base} + {self.lit(4)}" if base else f"{name} = {self.lit(rng.choice([8, 16]))}")
            self.eq_syms.append(name)
            return [node]
        if kind == "param_use":
            assert params
            p = rng.choice(params)
            form = rng.choice([".db {p}", ".dw {p}", ".dl {p}", "lda.w #{p}", "lda.b #{p}", "lda.w {p}", "sta.l {p}", ".dw {p} + 1", "ldx.w #{p} & 0xff"])
            return [stmt(form.format(p=p))]
        if kind == "block":
            inner = self.body(depth + 1, in_lm, params)
            if "local_table" in f and self.has_table and not in_lm and rng.random() < 0.4:
                # a table that is local to this block: other codes for the same characters
                rel = f"{self.prefix}ltbl{self.uid()}.tbl"
                chars = self.table_chars
                self.prog.files[rel] = ("\n".join(f"{0xC0 + i:02X}={ch}" for i, ch in enumerate(chars)) + "\n").encode("utf-8")
                self.prog.roles[rel] = "table"
                text = "".join(rng.choice(chars) for _ in range(rng.randrange(1, 8)))
                inner = [stmt(f".table '{self.ref(rel)}'", "table"), stmt(f".text '{text}'")] + inner + [stmt(f".text '{text}'")]
            return [block("{", inner, "block")]
        if kind == "if" and depth == 0 and not in_lm and rng.random() < 0.2:
            # include-guard idiom: the name tested here is only assigned further down, so it is undefined
            # (false) at this point of the single code-generation pass
            g = f"G{self.uid()}"
            n = block(f".if {g} {{", [stmt(f".db {self.lit(8)}")], "if", assembled=False)
            n["else_body"] = [stmt(f".db {self.lit(8)}, {self.lit(8)}")]
            n["else_assembled"] = True
            self.pending_guards.append(g)
            return [n]
        if kind == "if":
            cond, taken = self.condition()
            n = block(f".if {cond} {{", self.body(depth + 1, in_lm, params, new_scope=False), "if", assembled=taken)
            if rng.random() < 0.6:
                n["else_body"] = self.body(depth + 1, in_lm, params, new_scope=False)
                n["else_assembled"] = not taken
            return [n]
        if kind == "for":
            var = f"i{self.uid()}"
            lo = rng.choice([0, 0, 1, 2])
            hi_name = rng.choice(self.small_assigned) if self.small_assigned and rng.random() < 0.4 else None
            if hi_name is not None:
                lo = 0
                hi: Any = hi_name
                iters = 1  # >= 1 by construction (value in 1..4)
            else:
                hi = lo + rng.choice([0, 1, 2, 3])
                iters = hi - lo
            self.cur_for += 1
            body = self.body(depth + 1, True, (params or []) + [var], want=rng.randrange(1, 4))
            self.cur_for -= 1
            if rng.random() < 0.2:
                # iterations that generate nothing at all (a comment, an untaken .if): whatever is kept per
                # iteration - scopes, symbols - must stay balanced for what follows the loop
                body = [rng.choice([stmt("; nothing to do", "comment"), block(".if 0 {", [stmt("nop")], "if", assembled=False)])]
                if depth == 0 and not in_lm:
                    # ... and a block with a label of its own right after the loop
                    lname = f"ef{self.uid()}"
                    self.note_label(lname)
                    self.prog.local_labels.append(lname)
                    return [block(f".for {var} := {lo}, {hi} {{", body, "for", assembled=iters >= 1), block("{", [stmt(f"{lname}:", "label"), self.simple_instr()], "block")]
            return [block(f".for {var} := {lo}, {hi} {{", body, "for", assembled=iters >= 1)]
        if kind == "apply":
            name, nparams = rng.choice(self.macros)
            args = []
            for _ in range(nparams):
                r = rng.random()
                if r < 0.5:
                    args.append(self.lit(rng.choice([8, 16])))
                elif r < 0.75 and self.globals:
                    args.append(rng.choice(self.globals))
                elif self.assigned:
                    args.append(rng.choice(self.assigned))
                else:
                    args.append(self.lit(8))
            self.applied.add(name)
            if (self.cur_for > 0 or self.cur_macro is not None) and name not in self.prog.tainted_macros:
                self.prog.tainted_macros.append(name)
            return [stmt(f"{name}({', '.join(args)})", "apply")]
        if kind == "code_lookup":
            name = f"cb{self.uid()}"
            mname = f"mc{self.uid()}"
            mdef = block(f".macro {mname}(blk) {{", [stmt("{{ blk }}"), stmt("nop")], "macro_def", assembled=True)
            return [mdef, stmt(f"{mname}({{\n    {rng.choice(NAKED)}\n    {rng.choice(NAKED)}\n}})", "apply")]
        if kind == "scope":
            name = f"sc{self.uid()}"
            inner: list[Node] = []
            labels = []
            self.body_names.append(set())  # one name set for the whole named scope
            for _ in range(rng.randrange(1, 3)):
                l = f"s{self.uid()}"
                self.note_label(l)
                labels.append(l)
                inner.append(stmt(f"{l}:", "label"))
                inner += self.body(1, False, None, want=rng.randrange(1, 3), new_scope=False)
            self.body_names.pop()
            for l in labels:
                self.globals.append(f"{name}.{l}")
                self.prog.global_labels.append(f"{name}.{l}")
            return [block(f".scope {name} {{", inner, "scope")]
        if kind == "macro_def":
            name = f"m{self.uid()}"
            nparams = rng.randrange(0, 3)
            params2 = [f"p{self.uid()}" for _ in range(nparams)]
            self.cur_macro = name
            body = self.body(1, True, params2 or None, want=rng.randrange(1, 4))
            self.cur_macro = None
            self.macros.append((name, nparams))
            node = block(f".macro {name}({', '.join(params2)}) {{", body, "macro_def", assembled=False)
            node["macro"] = name
            return [node]
        if kind == "incbin":
            # file names as users have them: not every one is an identifier once '/' and '.' become '_'
            rel = f"{self.prefix}{rng.choice(['bin', 'bin', 'title-screen', '1up', 'gfx.v2', 'data+pal', 'font(8x8)'])}{self.uid()}.bin"
            self.prog.files[rel] = bytes(rng.randrange(256) for _ in range(rng.choice([1, 2, 7, 16, 40, 64])))
            self.prog.roles[rel] = "incbin"
            if self.ref(rel) == rel:
                # the directive defines a label named after the path: it belongs in the symbol file too
                self.note_label(rel.replace("/", "_").replace(".", "_"))
            return [stmt(f".incbin '{self.ref(rel)}'", "incbin")]
        if kind == "ips":
            # a small well-formed third-party patch whose targets lie in a zone the program never writes
            from .ipsref import encode

            self.n_ips += 1
            rel = f"{self.prefix}patch{self.uid()}.ips"
            delta = rng.choice([0, 0, 0x200, -0x200, 0x1000])
            recs = []
            for _ in range(rng.randrange(1, 4)):
                target = rng.randrange(0x300000, 0x3E0000)
                if rng.random() < 0.3:
                    recs.append((target - delta, "rle", (rng.randrange(1, 40), rng.randrange(256))))
                else:
                    recs.append((target - delta, "plain", bytes(rng.randrange(256) for _ in range(rng.randrange(1, 24)))))
            self.prog.files[rel] = encode(recs)
            self.prog.roles[rel] = "ips_in"
            expr = f"{delta:#x}" if delta >= 0 else f"-{-delta:#x}"
            node = stmt(f".include_ips '{self.ref(rel)}', {expr}", "include_ips")
            node["own"] = True  # part of the program itself (C13 inserts its directive under test separately)
            return [node]
        if kind == "table":
            rel = f"{self.prefix}tbl{self.uid()}.tbl"
            chars = rng.sample("ABCDEFGHIJKLMNOPQRSTUVWXYZabcdefgh", rng.randrange(3, 12))
            if rng.random() < 0.35:
                chars += rng.sample(["\u00e9", "\u00e0", "\u00df", "\u3042", "\u65e5", "\u00f1"], 2)  # non-ASCII characters (UTF-8 source and table)
            lines = []
            for i, ch in enumerate(chars):
                if rng.random() < 0.2:
                    lines.append(f"{0x80 + i:02X}{i:02X}={ch}")
                else:
                    lines.append(f"{0x20 + i:02X}={ch}")
            self.prog.files[rel] = ("\n".join(lines) + "\n").encode("utf-8")
            self.prog.roles[rel] = "table"
            self.has_table = True
            self.table_chars = "".join(chars)
            return [stmt(f".table '{self.ref(rel)}'", "table")]
        raise AssertionError(kind)

    def condition(self) -> tuple[str, bool]:
        rng = self.rng
        # conditions are evaluated at code generation time: literals, ':=' names, -D names
        vals = dict(self._assigned_values)
        pool = [n for n in self.assigned if n in vals]
        r = rng.random()
        if pool and r < 0.6:
            name = rng.choice(pool)
            if rng.random() < 0.3:
                return f"{name} - {vals[name]}", False
            if rng.random() < 0.3:
                return f"{name} & 1", bool(vals[name] & 1)
            return name, bool(vals[name])
        v = rng.choice([0, 1, 1, 2])
        return str(v), bool(v)

    # -- whole program
    def generate(self) -> Prog:
        rng = self.rng
        f = self.feats
        self.applied: set[str] = set()
        self._assigned_values: dict[str, int] = {n: int(v, 0) for n, v in self.defines}
        prog = self.prog
        root = prog.root
        far = "far_banks" in f
        n_sections = rng.choice([1, 1, 2, 3])
        use_map = "map" in f and self.mapping not in ("low2", "any")
        if use_map:
            root += self.custom_map()
        include_at = rng.randrange(n_sections) if "include" in f else -1
        section_addrs: list[int] = []
        if "leading_code" in f and self.mapping == "low" and not use_map and "avoid_first_bank" not in f:
            # statements before the first '*=': assembled from the position a fresh Program starts at
            lead = f"L{self.uid()}"
            self.globals.append(lead)
            prog.global_labels.append(lead)
            self.note_label(lead)
            root.append(stmt(f"{lead}:", "label"))
            root += [self.plain_instr() for _ in range(rng.randrange(1, 4))]
            lead2 = f"L{self.uid()}"
            self.globals.append(lead2)
            prog.global_labels.append(lead2)
            self.note_label(lead2)
            root += [stmt(f"{lead2}:", "label"), stmt(f".dl {lead}, {lead2}")]
            self.used_banks.add(0)
        for s in range(n_sections):
            bank = self.pick_section_bank(far)
            addr = (bank << 16) | pick_offset(rng, self.mapping if not use_map else "low")
            if self.size > 40:
                addr = (bank << 16) | (0x8000 + rng.choice([0, 0x10, 0x123]))  # long sections start low in the window
            section_addrs.append(addr)
            n0 = stmt(f"*={addr:#08x}" if rng.random() < 0.7 else f"*= {addr:#x}", "stareq")
            if s == 0:
                n0["keep"] = True
            root.append(n0)
            self.budget = self.size
            want = max(2, self.size // n_sections + rng.randrange(-1, 3))
            # track := values for conditions: parse them back from the text we emit
            for _ in range(want):
                nodes = self.statement(0, False)
                for n in nodes:
                    self._note_assign(n)
                root += nodes
            while self.pending_guards:
                root.append(stmt(f"{self.pending_guards.pop()} := 1"))
            if self.assigned and "symbols" in f and rng.random() < 0.2:
                # an assembly-time variable updated from its own value (must happen exactly once)
                name = rng.choice([a for a in self.assigned if a not in self.small_assigned and a in self._assigned_values] or [None])
                if name is not None:
                    node = stmt(f"{name} := {name} + 1")
                    self._note_assign(node)
                    root.append(node)
                    root.append(stmt(f".dl {name}"))
            if s == include_at:
                rel = f"{self.prefix}inc{self.uid()}.s"
                self.budget = 4
                inc_nodes: list[Node] = []
                for _ in range(rng.randrange(1, 5)):
                    nodes = self.statement(0, False)
                    for n in nodes:
                        self._note_assign(n)
                    inc_nodes += nodes
                if "nested_include" in f and rng.random() < 0.6:
                    # an included file that includes another one
                    rel2 = f"{self.prefix}inc{self.uid()}.s"
                    prog.inc_roots[rel2] = [self.plain_instr() for _ in range(rng.randrange(1, 3))] + [stmt(f".db {self.lit(8)}, {self.lit(8)}")]
                    inc_nodes.insert(rng.choice([0, len(inc_nodes)]), stmt(f".include '{self.ref(rel2)}'", "include"))
                prog.inc_roots[rel] = inc_nodes
                root.append(stmt(f".include '{self.ref(rel)}'", "include"))
            if "reloc" in f and not use_map and rng.random() < 0.4:
                # '@=' changes only the logical address: following code is stored contiguously but assembled
                # to run elsewhere - in RAM, or at another ROM address (no branches after it in this section)
                if self.mapping != "low2" and rng.random() < 0.5:
                    target = 0x7E0000 + rng.choice([0x2000, 0x4000, 0xFF00])
                elif self.mapping == "high":
                    target = (rng.choice([0x40, 0x41, 0xC0, 0xC5]) << 16) | rng.choice([0x0100, 0x8100, 0x9000])
                elif self.mapping == "any":
                    target = (rng.choice([0xC0, 0xC3, 0xC9]) << 16) | rng.choice([0x8100, 0x9000, 0xC000])
                elif self.mapping == "low":
                    target = (rng.choice([0x00, 0x02, 0x80, 0x85]) << 16) | rng.choice([0x8100, 0x9000, 0xC000])
                else:
                    target = (rng.choice([0x80, 0x82, 0x85] if "low2_upper" not in f else [0xD1, 0xE0, 0xFF]) << 16) | rng.choice([0x8100, 0x9000, 0xC000])
                lbl = f"R{self.uid()}"
                self.globals.append(lbl)
                self.note_label(lbl)
                root += [stmt(f"@={target:#x}", "ateq"), stmt(f"{lbl}:", "label"), stmt(f".dw {self.lit(16)}")]
                root += [self.plain_instr() for _ in range(rng.randrange(0, 3))]
                root += [stmt(f".pointer {lbl}"), self.plain_instr()]
        if "overlap" in f and section_addrs:
            # a later block that overlaps an earlier one from a lower (or slightly higher) address:
            # 'later writes win' must hold whatever order a writer would like to store records in
            a = rng.choice(section_addrs)
            k = rng.choice([-3, -1, 0, 0, 2, 5])
            if (a & 0x7FFF) + k < 0:
                k = 0
            root.append(stmt(f"*={a + k:#08x}", "stareq"))
            if "zero_block" in f and rng.random() < 0.5:
                root.append(stmt(".db " + ", ".join("0" for _ in range(rng.randrange(2, 9)))))  # all-zero bytes over earlier output
            else:
                root.append(stmt(".db " + ", ".join(self.lit(8) for _ in range(rng.randrange(2, 9)))))
        if "overlap" in f and "big_incbin" not in f and rng.random() < 0.35:
            # the same block written twice with an overlapping one in between (a default table, a patch of
            # one entry, the default table again): the last write wins, whatever a writer remembers
            rb = {"low": 0x0E, "low2": 0x8E, "high": 0xC6, "any": 0xC8}[self.mapping]
            ra = (rb << 16) | rng.choice([0x8000, 0x9100, 0xF000])
            first = ".db " + ", ".join(self.lit(8) for _ in range(rng.randrange(3, 9)))
            if not use_map:
                root += [stmt(f"*={ra:#08x}", "stareq"), stmt(first), stmt(f"*={ra + rng.randrange(0, 3):#08x}", "stareq"), stmt(f".db {self.lit(8)}"), stmt(f"*={ra:#08x}", "stareq"), stmt(first)]
                # blocks a few bytes apart (the bytes in between belong to nobody), and two regions filled
                # alternately, each continuing exactly where it stopped
                g = ra + 0x40
                root += [stmt(f"*={g:#08x}", "stareq"), stmt(f".db {self.lit(8)}, {self.lit(8)}"), stmt(f"*={g + 2 + rng.randrange(1, 5):#08x}", "stareq"), stmt(f".db {self.lit(8)}")]
                r1, r2 = ra + 0x200, ra + 0x100
                root += [stmt(f"*={r1:#08x}", "stareq"), stmt(f".dw {self.lit(16)}"), stmt(f"*={r2:#08x}", "stareq"), stmt(f".db {self.lit(8)}, {self.lit(8)}, {self.lit(8)}"), stmt(f"*={r1 + 2:#08x}", "stareq"), stmt(f".dw {self.lit(16)}"), stmt(f"*={r2 + 3:#08x}", "stareq"), stmt(f".db {self.lit(8)}")]
        if "zero_block" in f and not use_map and "low2_upper" not in f:
            # a block made of zero bytes only, above everything else the program writes (a writer must
            # still write it: the flat image ends with it, and a patch must contain it)
            zb = {"low": 0x0F, "low2": 0x8F, "high": 0xC7, "any": 0xC9}[self.mapping]
            root.append(stmt(f"*={(zb << 16) | 0x9000:#08x}", "stareq"))
            root.append(stmt(rng.choice([".db 0, 0, 0, 0", ".dw 0, 0", ".dl 0", ".db 0"])))
        if "big_incbin" in f and not use_map and self.mapping != "any" and "low2_upper" not in f:
            # one contiguous block of more than 64 KiB (spills over the following banks)
            # total length of the contiguous block (the blob plus an optional trailing byte): exact multiples
            # of 65535 and their neighbours are the interesting cases for any writer that splits blocks
            trailing = rng.random() < 0.5
            total = rng.choice([65534, 65535, 65535, 65536, 65537, 70000, 131069, 131070, 131070, 131071, 196605])
            size = total - (1 if trailing else 0)
            units = total // 0x8000 + 2
            bank = self.pick_bank_run(units)
            if bank is not None:
                start = 0x8000 if self.mapping != "high" else 0x0000
                rel = f"{self.prefix}big.bin"
                prog.files[rel] = random.Random(rng.getrandbits(32)).randbytes(size)
                prog.roles[rel] = "incbin"
                root.append(stmt(f"*={(bank << 16) | start:#08x}", "stareq"))
                root.append(stmt(f".incbin '{rel}'", "incbin"))
                if trailing:
                    root.append(stmt(".db 0x42"))
        # trailing label table: lets an oracle read label values out of the emitted bytes
        if prog.global_labels:
            bank = self.pick_section_bank(far)
            addr = (bank << 16) | (0x8000 if not use_map else 0x8000)
            prog.table_addr = addr
            t = stmt(f"*={addr:#08x}", "stareq")
            root.append(t)
            for name in prog.global_labels:
                root.append(stmt(f".dl {name}", "label_table"))
        prog.unmapped_addr = self.unmapped()
        recompute_assembled(prog)
        return prog

    def pick_bank_run(self, units: int) -> int | None:
        """A bank followed by enough free 32 KiB units for a large contiguous block."""
        if self.mapping == "high":
            cands = [0x44, 0x48, 0xC4, 0xC8]
        elif self.mapping == "low":
            cands = [0x10, 0x20, 0x90, 0xA0]
        else:
            cands = [0x90, 0xA0, 0xB0]
        self.rng.shuffle(cands)
        for b in cands:
            first = phys(self.mapping, (b << 16) | 0x8000) >> 15
            if self.mapping == "high":
                first = phys(self.mapping, b << 16) >> 15
            keys = set(range(first, first + units + 1))
            if not keys & self.used_banks:
                self.used_banks |= keys
                return b
        return None

    def pick_section_bank(self, far: bool) -> int:
        if self.mapping == "low2" and "low2_upper" in self.feats:
            return pick_bank(self.rng, "low2u", far, self.used_banks)
        if self._custom_banks is not None:
            for _ in range(100):
                b = self.rng.choice(self._custom_banks)
                if b not in self.used_banks:
                    self.used_banks.add(b)
                    return b
            raise RuntimeError("no bank")
        return pick_bank(self.rng, self.mapping, far, self.used_banks)

    _custom_banks: list[int] | None = None

    def custom_map(self) -> list[Node]:
        """A custom mapping that differs from the defaults (other bank ranges, same window)."""
        rng = self.rng
        lo = rng.choice([0x10, 0x20, 0x30])
        hi = lo + rng.choice([0x07, 0x0F])
        mirror = rng.random() < 0.5
        txt = f".map identifier={rng.randrange(1, 9)} bank_range={lo:#x}, {hi:#x} addr_range=0x8000, 0xffff mask=0x8000"
        banks = list(range(lo, hi + 1))
        if mirror:
            mlo = lo + 0x80
            txt += f" mirror_bank_range={mlo:#x}, {mlo + (hi - lo):#x}"
        nodes = [stmt(txt, "map")]
        nodes[0]["keep"] = True
        if rng.random() < 0.5:
            nodes.append(stmt(".map identifier=9 bank_range=0x7e, 0x7f addr_range=0x0000, 0xffff mask=0x10000 writable=1", "map"))
            nodes[-1]["keep"] = True
        self._custom_banks = banks
        self._custom_lo = lo
        return nodes

    def unmapped(self) -> int:
        if self._custom_banks is not None:
            return 0x058000  # below every custom range, not mirrored
        if self.mapping == "low":
            return 0x728000
        if self.mapping == "any":
            return 0  # depends on the ROM type the text is assembled under
        if self.mapping == "low2":
            return 0  # the low2 mapping (banks 0x80-0xFF mirrored at 0x00-0x7D, RAM 0x7E-0x7F) leaves no bank unmapped
        return 0x208000

    def _note_assign(self, n: Node) -> None:
        t = n.get("t", "")
        if n["k"] == "stmt" and " := " in t and "\n" not in t:
            name, _, expr = t.partition(" := ")
            try:
                val = eval(expr.replace("0b", "0b"), {"__builtins__": {}}, dict(self._assigned_values))  # noqa: S307 - our own text
            except Exception:
                return
            self._assigned_values[name.strip()] = int(val)


def gen_program(rng: random.Random, mapping: str, feats: set[str] | None = None, defines: list[tuple[str, str]] | None = None, size: int = 12, prefix: str = "") -> Prog:
    if feats is None:
        feats = {x for x in ALL_FEATURES if rng.random() < 0.55}
        feats.add("data")
    return Gen(rng, mapping, feats, defines, size, prefix).generate()


def decode_label_table(prog: Prog, image: Any) -> dict[str, int] | None:
    """Read the trailing '.dl label' table back out of an emitted image."""
    if prog.table_addr is None:
        return None
    base = phys(prog.mapping if "map" not in prog.features else "low", prog.table_addr)
    if "map" in prog.features:
        return None
    out = {}
    for i, name in enumerate(prog.global_labels):
        bs = [image.get(base + 3 * i + j) for j in range(3)]
        if any(b is None for b in bs):
            return None
        out[name] = bs[0] | (bs[1] << 8) | (bs[2] << 16)
    return out
