"""Running a816's public entry points inside the simulated environment.

Everything here runs in a forked child (see core.run_child).  A *history* is
a list of operations executed one after another in the same process and the
same sandbox; a single execution is a history of length one.
"""
from __future__ import annotations

import os
import sys
import zlib
from typing import Any

from . import simenv
from .core import Capture, describe_exc, scrub
from . import blocking
from .stepclock import StepBudgetExceeded, run_clocked


# Every execution runs under the step clock; unless a property sets its own budget a run is cut
# off (outcome kind "timeout", deterministic) after this many steps instead of waiting for the
# wall-clock safety net.  Legitimate runs of the generated workloads need < 10^5 steps.
DEFAULT_BUDGET = 20_000_000


class WriterFault(Exception):
    """Raised by the user-supplied Writer on its k-th block (fault kind D5)."""


class RecordingWriter:
    def __init__(self, fail_at: int | None = None) -> None:
        self.blocks: list[tuple[int, bytes]] = []
        self.fail_at = fail_at
        self.fired = False
        self.calls = 0

    def begin(self) -> None:
        pass

    def write_block_header(self, block: bytes, block_address: int) -> None:
        pass

    def write_block(self, block: bytes, block_address: int) -> None:
        n = self.calls
        self.calls += 1
        if self.fail_at is not None and n == self.fail_at:
            self.fired = True
            raise WriterFault(f"writer refused block #{n}")
        self.blocks.append((block_address, bytes(block)))

    def end(self) -> None:
        pass


ROM_BY_NAME = {"low": "low_rom", "low2": "low_rom_2", "high": "high_rom"}


def _new_program(spec: dict[str, Any]) -> Any:
    from a816.cpu.cpu_65c816 import RomType
    from a816.program import Program

    program = Program(dump_symbols=bool(spec.get("dump_symbols")))
    rom = spec.get("rom")
    if rom is not None:
        program.resolver.rom_type = getattr(RomType, ROM_BY_NAME[rom])
    for name, value in spec.get("defines") or []:
        program.resolver.current_scope.add_symbol(name, int(str(value), 0))
    return program


def build_argv(spec: dict[str, Any], root: str) -> list[str]:
    if spec.get("argv") is not None:
        return ["x816"] + [a.replace("$ROOT", root) for a in spec["argv"]]
    src = _p(spec["src"], spec, root)
    out = _p(spec["out"], spec, root)
    # documented spellings only (no argparse prefix abbreviations): seeded by spec["argv_style"]
    import random as _random

    st = _random.Random(spec["argv_style"]) if spec.get("argv_style") is not None else None

    def spell(short: str, long: str | None, value: str) -> list[str]:
        if st is None:
            return [short, value]
        forms = [[short, value], [short + value]]
        if long:
            forms += [[long, value], [long + "=" + value]]
        return st.choice(forms)

    opts: list[list[str]] = [] if spec.get("no_output_opt") else [spell("-o", "--output", out)]
    if spec.get("verbose"):
        opts.append(["--verbose"])
    if spec.get("format") is not None and not (st is not None and spec["format"] == "ips" and st.random() < 0.3):
        opts.append(spell("-f", None, spec["format"]))  # "-f ips" is the default and may be left out
    if spec.get("mapping") is not None and not (st is not None and spec["mapping"] == "low" and st.random() < 0.3):
        opts.append(spell("-m", None, spec["mapping"]))  # so is "-m low"
    if spec.get("copier"):
        opts.append(["--copier-header"])
    if spec.get("dump_symbols"):
        opts.append(["--dump-symbols"])
    order = spec.get("argv_order") or list(range(len(opts)))
    ordered = [opts[i] for i in order if i < len(opts)]
    ordered += [o for i, o in enumerate(opts) if i not in order]
    defines = [f"{k}={v}" for k, v in (spec.get("defines") or [])]
    dflag = "-D" if st is None or st.random() < 0.6 else "--defines"
    argv = ["x816"]
    if spec.get("positional_first", True):
        argv.append(src)
        for o in ordered:
            argv += o
        if defines:
            argv += [dflag] + defines
    else:
        # -D takes one-or-more values: always follow it with another option
        if defines:
            argv += [dflag] + defines
        for o in ordered:
            argv += o
        argv.append(src)
    return argv


def _base(spec: dict[str, Any], root: str) -> str:
    """Directory the relative names of a spec are relative to: the sandbox, or the sub-directory the
    history has changed into (spec["cwd"], see the 'chdir' operation)."""
    return os.path.join(root, spec["cwd"]) if spec.get("cwd") else root


def _p(rel: str, spec: dict[str, Any], root: str) -> str:
    if spec.get("abs_paths"):
        return os.path.join(_base(spec, root), rel)
    return rel


def run_exec(root: str, spec: dict[str, Any], roles: dict[str, str], knobs: dict[str, Any], faults: list[dict[str, Any]]) -> dict[str, Any]:
    """One execution of one entry point.  Returns the outcome record."""
    from pathlib import Path

    entry = spec["entry"]
    cwd = os.path.join(root, spec["cwd"]) if spec.get("cwd") else root
    env = simenv.SimEnv(root, roles, knobs, faults, cwd=cwd)
    env.manage_cwd = False  # run_history put the process into the sandbox once; nothing resets it between operations
    cap = Capture()
    writer = RecordingWriter(spec.get("writer_fail_at"))
    holder: dict[str, Any] = {}

    def call() -> Any:
        if entry == "cli":
            import a816.cli

            sys.argv = build_argv(spec, root)
            holder["argv"] = list(sys.argv)
            return a816.cli.cli_main()
        program = _new_program(spec)
        holder["program"] = program
        src = _p(spec["src"], spec, root)
        if entry == "string":
            text = spec.get("text")
            if text is None:
                data = simenv.read_real(os.path.join(_base(spec, root), spec["src"]))
                text = (data or b"").decode("utf-8", errors="replace")
            ret = program.assemble_string_with_emitter(text, src, writer)  # src: relative or absolute name (abs_paths)
        elif entry == "with_emitter":
            ret = program.assemble_with_emitter(src, writer)
        elif entry == "assemble":
            ret = program.assemble(src, Path(_p(spec["out"], spec, root)))
        elif entry == "patch":
            kwargs: dict[str, Any] = {}
            if spec.get("mapping") is not None:
                kwargs["mapping"] = spec["mapping"]
            if spec.get("copier"):
                kwargs["copier_header"] = True
            ret = program.assemble_as_patch(src, Path(_p(spec["out"], spec, root)), **kwargs)
        else:
            raise ValueError(entry)
        if spec.get("symfile") and (ret is None or ret == 0):
            program.exports_symbol_file(_p(spec["symfile"], spec, root))
        return ret

    saved_argv = list(sys.argv)
    guard = {"max_span": 0}
    if spec.get("range_guard"):
        # Observe explicit loop counts: shadow the builtin `range` in the code generator's module
        # namespace (no change to the repository).  Absence of the module/name is ignored.
        try:
            import a816.parse.codegen as _cg

            def _range(*a: Any) -> Any:
                r = range(*a)
                if len(r) > guard["max_span"]:
                    guard["max_span"] = len(r)
                return r

            _cg.range = _range  # type: ignore[attr-defined]
        except Exception:  # noqa: BLE001
            pass
    # process environment the simulator decides: environment variables and the terminal the process is
    # attached to (knobs "environ": {name: value-or-None}, "terminal": [columns, lines] or "none")
    saved_environ: dict[str, str | None] = {}
    for name, val in (knobs.get("environ") or {}).items():
        saved_environ[name] = os.environ.get(name)
        if val is None:
            os.environ.pop(name, None)
        else:
            os.environ[name] = val
    real_gts = os.get_terminal_size
    term = knobs.get("terminal")
    if term is not None:

        def _gts(fd: int = 1) -> os.terminal_size:
            if term == "none":
                raise OSError(25, "Inappropriate ioctl for device")
            return os.terminal_size((int(term[0]), int(term[1])))

        os.get_terminal_size = _gts  # type: ignore[assignment]
    import warnings as _warnings

    with cap, env, _warnings.catch_warnings():
        if knobs.get("warnings"):
            # the interpreter was started with -W error / PYTHONWARNINGS=error (or a test runner turned
            # warnings into errors): part of the environment
            _warnings.simplefilter(knobs["warnings"])
        blocking.arm()
        try:
            value, exc, steps, timed_out = run_clocked(call, spec.get("budget", DEFAULT_BUDGET))
        finally:
            blocking.disarm()
    sys.argv = saved_argv
    os.get_terminal_size = real_gts  # type: ignore[assignment]
    for name, old in saved_environ.items():
        if old is None:
            os.environ.pop(name, None)
        else:
            os.environ[name] = old

    out: dict[str, Any] = {"entry": entry, "steps": steps, "max_loop_span": guard["max_span"]}
    if timed_out or isinstance(exc, StepBudgetExceeded):
        out["kind"] = "timeout"
        out["ok"] = False
        # where was the code when the budget ran out: innermost frames inside the tree under test
        frames = []
        tb = exc.__traceback__ if exc is not None else None
        while tb is not None:
            co = tb.tb_frame.f_code
            if "/a816/" in co.co_filename or "/script/" in co.co_filename:
                frames.append(f"{os.path.basename(co.co_filename)}:{co.co_qualname}")
            tb = tb.tb_next
        out["stuck_in"] = frames[-3:]
        if blocking.blocked_calls:
            out["blocked"] = blocking.blocked_calls[0]
    elif isinstance(exc, SystemExit):
        out["kind"] = "exit"
        code = exc.code
        out["ret"] = code if isinstance(code, (int, type(None))) else str(code)
        # what the parent process sees: the operating system keeps the low 8 bits of an integer status
        # (sys.exit(-256) and sys.exit(256) both end the process with status 0); any other object is status 1
        out["status"] = 0 if code is None else ((code & 0xFF) if isinstance(code, int) else 1)
        out["ok"] = out["status"] == 0
    elif exc is not None:
        out["kind"] = "raised"
        out["exc"] = describe_exc(exc)
        out["exc"]["msg"] = out["exc"]["msg"].replace(root, "$ROOT")
        out["injected"] = isinstance(exc, (simenv.InjectedFault, WriterFault))
        out["ok"] = False
    else:
        out["kind"] = "returned"
        if entry == "cli":
            # cli_main returned without sys.exit: the interpreter would exit 0
            out["ret"] = None
            out["ok"] = True
        elif entry == "string":
            out["ret"] = value if value is None else scrub(str(value)).replace(root, "$ROOT")
            out["ok"] = value is None
        else:
            out["ret"] = value if isinstance(value, (int, type(None))) else repr(value)
            out["ok"] = value == 0 and value is not None and value is not False
    if entry == "cli" and exc is not None:
        # the command has ended (SystemExit or an escaping exception): what its frames still reference is
        # released by a real interpreter on its way out, so release it before looking at the files
        import gc
        import traceback

        traceback.clear_frames(exc.__traceback__)
        exc.__traceback__ = None
        gc.collect()
    out["announced"] = cap.announced_success()
    out["blocks"] = writer.blocks
    out["writer_fired"] = writer.fired
    program = holder.get("program")
    labels = None
    if program is not None:
        try:
            root_t = root.replace("/", "_").replace(".", "_")  # how .incbin derives a label from a path
            labels = [(str(n).replace(root, "$ROOT").replace(root_t, "$ROOT"), int(v)) for n, v in program.resolver.get_all_labels()]
        except Exception as e:  # noqa: BLE001
            labels = [("$error", 0), (type(e).__name__, 0)]
    out["labels"] = labels
    outs: dict[str, Any] = {}
    for key in ("out", "symfile"):
        rel = spec.get(key)
        if rel:
            data = simenv.read_real(os.path.join(_base(spec, root), rel))
            outs[rel] = None if data is None else zlib.compress(data, 1)
    out["outs"] = outs
    # digest of the output files with the (pid-dependent) sandbox path scrubbed: a symbol file can
    # legitimately contain it (.incbin of an absolute path derives a label name from the path)
    import hashlib

    root_b, root_tb = root.encode(), root.replace("/", "_").replace(".", "_").encode()
    out["outs_digest"] = {
        rel: (None if z is None else hashlib.blake2b(zlib.decompress(z).replace(root_b, b"$ROOT").replace(root_tb, b"$ROOT"), digest_size=12).hexdigest())
        for rel, z in outs.items()
    }
    out["events"] = env.log
    out["fired"] = env.fired
    out["points"] = env.points()
    out["counts"] = dict(env.counts)
    out["unwrapped_open"] = env.unwrapped_open
    out["stdout"] = cap.stdout.getvalue()[-600:].replace(root, "$ROOT")
    out["log_tail"] = [(n, lv, scrub(m)[:200].replace(root, "$ROOT")) for n, lv, m in cap.records[-6:]]
    # what a handler attached by the caller would have been told at WARNING and above: for the file entry
    # points this *is* the error report (they only return -1)
    out["log_warn"] = [(n, lv, scrub(m)[:300].replace(root, "$ROOT")) for n, lv, m in cap.records if lv >= 30][:40]
    if "argv" in holder:
        out["argv"] = [a.replace(root, "$ROOT") for a in holder["argv"]]
    return out


def get_out(outcome: dict[str, Any], rel: str) -> bytes | None:
    z = outcome["outs"].get(rel)
    return None if z is None else zlib.decompress(z)


def run_history(root: str, files: dict[str, bytes], roles: dict[str, str], ops: list[dict[str, Any]]) -> list[dict[str, Any]]:
    """Child main: populate the sandbox, run the ops in order, return outcomes."""
    import gc

    simenv.populate(root, files)
    os.chdir(root)
    results: list[dict[str, Any]] = []
    for op in ops:
        # Programs released by earlier operations are really freed (the collector is otherwise off in
        # children): state keyed by object identity must not survive into the next assembly
        gc.collect()
        kind = op.get("op", "exec")
        if kind == "exec":
            results.append(run_exec(root, op["spec"], roles, op.get("knobs") or {}, op.get("faults") or []))
        elif kind == "write_file":
            simenv.populate(root, {op["path"]: op["data"]})
            results.append({"kind": "file_written"})
        elif kind == "delete_file":
            try:
                os.unlink(os.path.join(root, op["path"]))
            except OSError:
                pass
            results.append({"kind": "file_deleted"})
        elif kind == "chdir":
            # the *caller* changes the working directory between two assemblies (a driver that visits
            # one project directory after the other)
            os.chdir(os.path.join(root, op.get("path") or ""))
            results.append({"kind": "chdir"})
        elif kind == "chmod":
            os.chmod(os.path.join(root, op["path"]), op["mode"])
            results.append({"kind": "chmod"})
        else:
            raise ValueError(kind)
    return results


def execute(files: dict[str, bytes], roles: dict[str, str], ops: list[dict[str, Any]], wall_s: float | None = None, mem_bytes: int | None = None, cpu_s: int | None = None) -> list[dict[str, Any]]:
    """Worker side: sandbox + fork + cleanup."""
    from .core import run_child

    root = simenv.new_sandbox()
    try:
        return run_child(run_history, root, files, roles, ops, wall_s=wall_s, mem_bytes=mem_bytes, cpu_s=cpu_s)
    finally:
        simenv.drop_sandbox(root)


def execute_one(files: dict[str, bytes], roles: dict[str, str], spec: dict[str, Any], knobs: dict[str, Any] | None = None, faults: list[dict[str, Any]] | None = None, **kw: Any) -> dict[str, Any]:
    return execute(files, roles, [{"op": "exec", "spec": spec, "knobs": knobs or {}, "faults": faults or []}], **kw)[0]


# ---------------------------------------------------------------------------
# fresh interpreters: the interpreter's own settings are part of the environment (hash seed, -O, ...)


def _fresh_main(path: str) -> None:
    """Entry for a run in a fresh interpreter (executed as a subprocess by run_fresh)."""
    import pickle

    from . import core

    with open(path, "rb") as f:
        root, files, roles, ops = pickle.load(f)
    core.import_repo()
    res = run_history(root, files, roles, ops)
    sys.stdout.buffer.write(pickle.dumps(res))


def run_fresh_ops(files: dict[str, bytes], roles: dict[str, str], ops: list[dict[str, Any]], hashseed: str = "0", pyflags: list[str] | None = None) -> list[dict[str, Any]]:
    """The operations in a brand-new interpreter process started with the given PYTHONHASHSEED and
    interpreter flags (e.g. ["-O"]: asserts stripped).  The process is as deterministic as a fork: same
    files, same seed, same flags -> same result."""
    import pickle
    import subprocess

    from . import core

    root = simenv.new_sandbox()
    try:
        job = os.path.join(root, "__job.pickle")
        work = os.path.join(root, "w")
        os.makedirs(work)
        with open(job, "wb") as f:
            pickle.dump((work, files, roles, ops), f)
        env = dict(os.environ, PYTHONHASHSEED=hashseed, PYTHONDONTWRITEBYTECODE="1", VERIF_REPO=core.REPO)
        env.pop("PYTHONOPTIMIZE", None)
        code = "import sys; sys.path.insert(0, %r); from sim.entries import _fresh_main; _fresh_main(%r)" % (core.VERIF_DIR, job)
        try:
            p = subprocess.run(["/venv/bin/python", "-B"] + list(pyflags or []) + ["-c", code], env=env, capture_output=True, timeout=120, cwd=core.VERIF_DIR)
        except subprocess.TimeoutExpired:
            raise core.ChildTimeout("fresh interpreter run exceeded 120 s")
        if p.returncode != 0 or not p.stdout:
            raise core.HarnessError(f"fresh interpreter run failed: rc={p.returncode} stderr={p.stderr[-500:]!r}")
        return pickle.loads(p.stdout)
    finally:
        simenv.drop_sandbox(root)


def run_fresh(files: dict[str, bytes], roles: dict[str, str], spec: dict[str, Any], hashseed: str = "0", pyflags: list[str] | None = None) -> dict[str, Any]:
    return run_fresh_ops(files, roles, [{"op": "exec", "spec": spec}], hashseed, pyflags)[0]
