"""Independent reference model of the IPS patch format (reader, applier, encoder).

No a816 code is used here.  Records are (offset, kind, payload):
  kind "plain": payload = data bytes (1..65535)
  kind "rle"  : payload = (run_length 0..65535, value byte)

Format: b"PATCH", records, b"EOF".
  plain record: 3-byte BE offset, 2-byte BE size (!=0), size bytes
  RLE record  : 3-byte BE offset, 2-byte 0, 2-byte BE run length, 1 byte value
A record whose offset field reads b"EOF" (0x454F46) cannot exist: every
standard patcher stops there.
"""
from __future__ import annotations

from typing import Any

EOF_OFFSET = 0x454F46

Record = tuple[int, str, Any]


class IpsFormatError(Exception):
    def __init__(self, klass: str, msg: str) -> None:
        super().__init__(msg)
        self.klass = klass


def parse(data: bytes, allow_trailing: bool = False) -> list[Record]:
    """Strict reader, the way a standard patcher reads.

    Raises IpsFormatError with klass in
      missing_header, truncated_record, missing_eof, trailing_bytes
    """
    if data[:5] != b"PATCH":
        raise IpsFormatError("missing_header", "no PATCH header")
    pos = 5
    n = len(data)
    records: list[Record] = []
    while True:
        if pos == n:
            raise IpsFormatError("missing_eof", "file ends at a record boundary without EOF")
        head = data[pos : pos + 3]
        if head == b"EOF":
            pos += 3
            break
        if len(head) < 3:
            raise IpsFormatError("truncated_record", "file ends inside a record offset")
        off = int.from_bytes(head, "big")
        pos += 3
        sz = data[pos : pos + 2]
        if len(sz) < 2:
            raise IpsFormatError("truncated_record", "file ends inside a record size")
        size = int.from_bytes(sz, "big")
        pos += 2
        if size == 0:
            rl = data[pos : pos + 3]
            if len(rl) < 3:
                raise IpsFormatError("truncated_record", "file ends inside an RLE record")
            run = int.from_bytes(rl[:2], "big")
            records.append((off, "rle", (run, rl[2])))
            pos += 3
        else:
            payload = data[pos : pos + size]
            if len(payload) < size:
                raise IpsFormatError("truncated_record", "file ends inside a record payload")
            records.append((off, "plain", bytes(payload)))
            pos += size
    if pos != n and not allow_trailing:
        raise IpsFormatError("trailing_bytes", f"{n - pos} bytes after EOF")
    return records


def classify(data: bytes) -> str:
    try:
        parse(data)
        return "well_formed"
    except IpsFormatError as e:
        return e.klass


def record_bytes(rec: Record) -> bytes:
    off, kind, payload = rec
    if kind == "rle":
        run, value = payload
        return bytes([value]) * run
    return payload


def apply_records(records: list[Record], image: "Image | None" = None, delta: int = 0) -> "Image":
    """Apply records in order onto a sparse image."""
    img = Image() if image is None else image
    for rec in records:
        img.write(rec[0] + delta, record_bytes(rec))
    return img


def encode(records: list[Record], header: bytes = b"PATCH", footer: bytes = b"EOF") -> bytes:
    out = bytearray(header)
    for off, kind, payload in records:
        if not 0 <= off < (1 << 24):
            raise ValueError("offset out of range")
        out += off.to_bytes(3, "big")
        if kind == "rle":
            run, value = payload
            if not 0 <= run <= 0xFFFF:  # a run of 0 is a legal record that writes nothing
                raise ValueError("bad run")
            out += b"\x00\x00" + run.to_bytes(2, "big") + bytes([value])
        else:
            if not 1 <= len(payload) <= 0xFFFF:
                raise ValueError("bad size")
            out += len(payload).to_bytes(2, "big") + payload
    out += footer
    return bytes(out)


def record_spans(data: bytes) -> list[tuple[int, int, str]]:
    """(start, end, part) spans of a well-formed file, for aiming damage."""
    spans = [(0, 5, "header")]
    pos = 5
    for off, kind, payload in parse(data):
        spans.append((pos, pos + 3, "rec_offset"))
        spans.append((pos + 3, pos + 5, "rec_size"))
        pos += 5
        if kind == "rle":
            spans.append((pos, pos + 3, "rle_fields"))
            pos += 3
        else:
            spans.append((pos, pos + len(payload), "payload"))
            pos += len(payload)
    spans.append((pos, pos + 3, "eof"))
    return spans


# ---------------------------------------------------------------------------
# sparse image shared by several properties

PAGE = 1 << 16


class Image:
    """Sparse byte image that remembers exactly which offsets were written."""

    def __init__(self) -> None:
        self.pages: dict[int, tuple[bytearray, bytearray]] = {}

    def write(self, addr: int, data: bytes) -> None:
        pos = 0
        n = len(data)
        while pos < n:
            page, off = divmod(addr + pos, PAGE)
            take = min(n - pos, PAGE - off)
            pg = self.pages.get(page)
            if pg is None:
                pg = (bytearray(PAGE), bytearray(PAGE))
                self.pages[page] = pg
            pg[0][off : off + take] = data[pos : pos + take]
            pg[1][off : off + take] = b"\x01" * take
            pos += take

    def _norm(self) -> dict[int, tuple[bytes, bytes]]:
        return {k: (bytes(v[0]), bytes(v[1])) for k, v in self.pages.items() if any(v[1])}

    def __eq__(self, other: object) -> bool:
        if not isinstance(other, Image):
            return NotImplemented
        return self._norm() == other._norm()

    def written(self) -> int:
        return sum(sum(v[1]) for v in self.pages.values())

    def top(self) -> int:
        """Highest written offset, or -1."""
        for page in sorted(self.pages, reverse=True):
            mask = self.pages[page][1]
            idx = mask.rfind(b"\x01")
            if idx >= 0:
                return page * PAGE + idx
        return -1

    def any_written(self, addr: int, n: int) -> bool:
        """Is any offset of [addr, addr + n) written?  (exact)"""
        pos = 0
        while pos < n:
            page, off = divmod(addr + pos, PAGE)
            take = min(n - pos, PAGE - off)
            pg = self.pages.get(page)
            if pg is not None and pg[1].find(b"\x01", off, off + take) >= 0:
                return True
            pos += take
        return False

    def get(self, addr: int) -> int | None:
        page, off = divmod(addr, PAGE)
        pg = self.pages.get(page)
        if pg is None or not pg[1][off]:
            return None
        return pg[0][off]

    def flat(self) -> bytes:
        top = self.top()
        if top < 0:
            return b""
        out = bytearray(top + 1)
        for page, (data, mask) in self.pages.items():
            if page < 0:
                continue
            base = page * PAGE
            if base > top:
                continue
            end = min(PAGE, top + 1 - base)
            out[base : base + end] = data[:end]
        return bytes(out)

    def digest(self) -> str:
        import hashlib

        h = hashlib.blake2b(digest_size=12)
        for page in sorted(self.pages):
            data, mask = self.pages[page]
            if any(mask):
                h.update(page.to_bytes(8, "big", signed=True))
                h.update(bytes(data))
                h.update(bytes(mask))
        return h.hexdigest()

    def diff(self, other: "Image", limit: int = 4) -> list[str]:
        """Human readable differences (empty list = equal)."""
        out: list[str] = []
        only_a: list[int] = []
        only_b: list[int] = []
        differ: list[tuple[int, int, int]] = []
        na = nb = nd = 0
        for page in sorted(set(self.pages) | set(other.pages)):
            a = self.pages.get(page)
            b = other.pages.get(page)
            if a is not None and b is not None and a[0] == b[0] and a[1] == b[1]:
                continue
            for off in range(PAGE):
                ma = a[1][off] if a is not None else 0
                mb = b[1][off] if b is not None else 0
                if ma and not mb:
                    na += 1
                    if len(only_a) < limit:
                        only_a.append(page * PAGE + off)
                elif mb and not ma:
                    nb += 1
                    if len(only_b) < limit:
                        only_b.append(page * PAGE + off)
                elif ma and mb and a[0][off] != b[0][off]:  # type: ignore[index]
                    nd += 1
                    if len(differ) < limit:
                        differ.append((page * PAGE + off, a[0][off], b[0][off]))  # type: ignore[index]
        if na:
            out.append(f"{na} offsets written only in first (e.g. {[hex(x) for x in only_a]})")
        if nb:
            out.append(f"{nb} offsets written only in second (e.g. {[hex(x) for x in only_b]})")
        if nd:
            out.append(f"{nd} offsets differ (e.g. " + ", ".join(f"{hex(k)}:{x:02x}!={y:02x}" for k, x, y in differ) + ")")
        return out


def image_of_blocks(blocks: list[tuple[int, bytes]], shift: int = 0) -> Image:
    """Model of 'blocks written in order': later writes win."""
    img = Image()
    for addr, data in blocks:
        img.write(addr + shift, data)
    return img


def image_of_flat(data: bytes) -> Image:
    img = Image()
    if data:
        img.write(0, data)
    return img
