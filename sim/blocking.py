"""The blocking seam: calls that can park a single-threaded program forever.

A batch assembler has one thread.  If it waits for a lock it already holds, for a condition nobody can
signal, or sleeps in a retry loop, it never finishes - and it executes no interpreter step while it
waits, so the step clock alone cannot see it.  The simulator therefore owns these calls:

  * `threading.Lock()` returns a wrapper around a real lock.  While the seam is armed (only around a
    call into the code under test, in the forked child) a blocking, timeout-less `acquire()` of a lock
    that is held, in a process with exactly one thread, raises `SimBlockedForever` instead of parking
    the process: the situation is a definite, replayable deadlock.
  * `threading.Condition.wait()` without timeout, single thread, armed: same.
  * `time.sleep()` while armed advances a virtual clock and returns at once (a polling loop is then
    caught by the step clock); more than a simulated day of sleeping raises as well.

Outside the armed region every call goes straight to the real primitive.  The wrappers are installed
before the tree under test is imported, so module-level locks of that tree are wrappers too.
`SimBlockedForever` derives from `StepBudgetExceeded`: to every oracle it is "did not terminate".
"""
from __future__ import annotations

import threading
import time
from typing import Any

from .stepclock import StepBudgetExceeded


class SimBlockedForever(StepBudgetExceeded):
    pass


ARMED = False
virtual_slept = 0.0
blocked_calls: list[str] = []
_installed = False
_real_lock = threading.Lock
_real_sleep = time.sleep
_real_cond_wait = threading.Condition.wait


def _blocked(what: str) -> None:
    blocked_calls.append(what)
    raise SimBlockedForever(what)


class SimLock:
    __slots__ = ("_l",)

    def __init__(self) -> None:
        self._l = _real_lock()

    def acquire(self, blocking: bool = True, timeout: float = -1) -> bool:
        if ARMED and blocking and timeout == -1 and self._l.locked() and threading.active_count() == 1:
            _blocked("blocking acquire() of a lock that is already held, in a process with a single thread")
        return self._l.acquire(blocking, timeout)

    def release(self) -> None:
        self._l.release()

    def locked(self) -> bool:
        return self._l.locked()

    def __enter__(self) -> bool:
        return self.acquire()

    def __exit__(self, *a: Any) -> None:
        self._l.release()

    def _at_fork_reinit(self) -> None:
        self._l._at_fork_reinit()

    def __repr__(self) -> str:
        return f"<SimLock {self._l!r}>"


def _cond_wait(self: Any, timeout: float | None = None) -> bool:
    if ARMED and timeout is None and threading.active_count() == 1:
        _blocked("Condition.wait() without timeout in a process with a single thread (nobody can notify)")
    return _real_cond_wait(self, timeout)


def _sleep(seconds: float) -> None:
    global virtual_slept
    if not ARMED:
        return _real_sleep(seconds)
    virtual_slept += max(0.0, float(seconds))
    if virtual_slept > 86400.0:
        _blocked("slept for more than a simulated day")


def install() -> None:
    global _installed
    if _installed:
        return
    _installed = True
    threading.Lock = SimLock  # type: ignore[misc,assignment]
    threading.Condition.wait = _cond_wait  # type: ignore[method-assign]
    time.sleep = _sleep


def arm() -> None:
    global ARMED, virtual_slept
    virtual_slept = 0.0
    del blocked_calls[:]
    ARMED = True


def disarm() -> None:
    global ARMED
    ARMED = False
