"""Generic driver shared by all property checks.

  ./check <ID> --tier quick|thorough     run the check, write evidence/<ID>.json
  ./check <ID> --replay <file>           re-execute a recorded case

Exit status: 0 property held on everything explored (KNOWN-FINDING lines allowed)
             1 at least one "VIOLATION property=<id> replay=<path>" line
             2 harness error / harness time-out (never 0, never a VIOLATION line)
"""
from __future__ import annotations

import argparse
import concurrent.futures as cf
import importlib
import json
import multiprocessing
import os
import sys
import time
import traceback
from collections import Counter
from typing import Any, Callable, Iterable

from . import core
from .core import HarnessError

PROPS = ["C11", "C12", "C13", "C14", "C15", "C19"]

KNOWN_FILE = os.environ.get("VERIF_KNOWN_FILE") or os.path.join(core.VERIF_DIR, "known_findings.txt")  # override: self-tests only


# ---------------------------------------------------------------------------
# statistics container (mergeable across workers)


class Stats:
    def __init__(self) -> None:
        self.cases = 0
        self.evaluations = 0
        self.io_ops = 0
        self.steps = 0
        self.counters: Counter[str] = Counter()  # faults fired, probes, discards ...
        self.states: set[str] = set()
        self.samples: list[Any] = []
        self.chain = ""  # running digest of the event logs and outcomes of this case (determinism self-test)
        self.case_chains: dict[str, str] = {}

    def bump(self, key: str, n: int = 1) -> None:
        self.counters[key] += n

    def state(self, *parts: Any) -> None:
        self.states.add(core.digest(parts)[:16])

    def merge(self, other: "Stats") -> None:
        self.cases += other.cases
        self.evaluations += other.evaluations
        self.io_ops += other.io_ops
        self.steps += other.steps
        self.counters.update(other.counters)
        self.states |= other.states
        for s in other.samples:
            if len(self.samples) < 6:
                self.samples.append(s)
        self.case_chains.update(other.case_chains)

    def chain_add(self, *parts: Any) -> None:
        if os.environ.get("VERIF_CHAIN_DEBUG"):
            # readable trail instead of a digest (debugging aid for selftest/determinism.py)
            self.chain += "|" + ",".join(core.digest(p)[:6] if not isinstance(p, (int, str, type(None))) else str(p) for p in parts)
            return
        self.chain = core.digest([self.chain, parts])

    def add_outcome(self, outcome: dict[str, Any]) -> None:
        """Account one execution's I/O events, faults and steps."""
        self.evaluations += 1
        self.chain_add(
            outcome.get("events"),
            outcome.get("kind"),
            outcome.get("ret"),
            outcome.get("exc"),
            outcome.get("steps"),
            outcome.get("fired"),
            [(a, core.digest(b)) for a, b in (outcome.get("blocks") or [])],
            outcome.get("labels"),
            sorted((outcome.get("outs_digest") or {}).items(), key=str) if outcome.get("outs_digest") is not None else sorted((k, core.digest(v)) for k, v in (outcome.get("outs") or {}).items()),
        )
        self.io_ops += len(outcome.get("events") or ())
        self.steps += int(outcome.get("steps") or 0)
        for f in outcome.get("fired") or ():
            self.bump(f"fault_fired:{f['op']}:{f['role']}:{f['errno']}")
        if outcome.get("writer_fired"):
            self.bump("fault_fired:writer_block")
        for k, v in (outcome.get("counts") or {}).items():
            self.bump(f"benign:{k}", v)
        if outcome.get("unwrapped_open"):
            self.bump("probe:unwrapped_open", outcome["unwrapped_open"])


class Violation:
    def __init__(self, klass: str, sig: str, msg: str, case: Any, detail: Any = None) -> None:
        self.klass = klass  # violation class: must persist through minimisation
        self.sig = sig  # specific signature, used to match known findings
        self.msg = msg
        self.case = case
        self.detail = detail

    def to_dict(self) -> dict[str, Any]:
        return {"class": self.klass, "sig": self.sig, "msg": self.msg, "detail": core.to_jsonable(self.detail)}


# ---------------------------------------------------------------------------
# known findings


def load_known(prop: str) -> list[dict[str, str]]:
    """Lines:  known: property=<id> class=<class> sig=<sig> :: <what fails>
               fixed: property=<id> <commit> <what failed>      (suppresses nothing)"""
    out: list[dict[str, str]] = []
    if not os.path.exists(KNOWN_FILE):
        return out
    with open(KNOWN_FILE, encoding="utf-8") as f:
        for line in f:
            line = line.strip()
            if not line.startswith("known:"):
                continue
            head, _, what = line[len("known:") :].partition("::")
            fields = dict(p.split("=", 1) for p in head.split() if "=" in p)
            if fields.get("property") == prop:
                out.append({"class": fields.get("class", ""), "sig": fields.get("sig", ""), "what": what.strip()})
    return out


def match_known(known: list[dict[str, str]], v: Violation) -> dict[str, str] | None:
    for k in known:
        if k["class"] == v.klass and k["sig"] == v.sig:
            return k
    return None


# ---------------------------------------------------------------------------
# cooperative stop: the parent creates this file once it has enough violations (or an error);
# workers look at it between sub-cases so that a badly broken tree does not keep every worker busy

_STOP_FILE = ""


def should_stop() -> bool:
    return bool(_STOP_FILE) and os.path.exists(_STOP_FILE)


# ---------------------------------------------------------------------------
# worker side

_MODULE: Any = None


def _load(prop: str) -> Any:
    global _MODULE
    if _MODULE is None or _MODULE.PROP != prop:
        _MODULE = importlib.import_module(f"sim.props.{prop.lower()}")
    return _MODULE


def _worker_chunk(prop: str, seed: int, tier: str, items: list[Any]) -> tuple[Stats, list[dict[str, Any]], list[str]]:
    """Runs in a pool worker.  items: ("seeded", index) | ("fixed", case)."""
    mod = _load(prop)
    stats = Stats()
    found: list[dict[str, Any]] = []
    errors: list[str] = []
    for kind, payload in items:
        if should_stop():
            break
        try:
            if kind == "seeded":
                case = mod.gen_case(core.case_seed(seed, prop, payload), tier)
                case.setdefault("meta", {})["index"] = payload
            else:
                case = payload
            stats.cases += 1
            stats.chain = ""
            vs = mod.run_case(case, stats)
            stats.chain_add([v.to_dict() for v in vs])
            ckey = f"seeded:{payload}" if kind == "seeded" else "fixed:" + core.digest(case)
            stats.case_chains[ckey] = stats.chain
            if len(stats.samples) < 2:
                stats.samples.append(mod.sample_of(case) if hasattr(mod, "sample_of") else core.to_jsonable(case))
            for v in vs:
                found.append({"case": core.to_jsonable(v.case), "v": v.to_dict()})
        except (core.ChildTimeout, core.ChildCrashed) as e:
            errors.append(f"HARNESS-TIMEOUT/CRASH {type(e).__name__}: {e} item={kind}:{payload if kind == 'seeded' else '-'}")
        except Exception:
            errors.append("HARNESS-ERROR " + traceback.format_exc())
        if len(found) >= 8 or len(errors) >= 3:
            break
    return stats, found, errors


# ---------------------------------------------------------------------------
# minimisation (greedy over candidates provided by the property module)


def minimise(mod: Any, case: Any, klass: str, budget_s: float) -> tuple[Any, int]:
    if not hasattr(mod, "shrink_candidates"):
        return case, 0
    deadline = time.monotonic() + budget_s
    tries = 0
    improved = True
    current = case
    while improved and time.monotonic() < deadline:
        improved = False
        for cand in mod.shrink_candidates(current):
            if time.monotonic() >= deadline:
                break
            tries += 1
            t1 = time.monotonic()
            try:
                vs = mod.run_case(cand, Stats())
            except Exception:
                continue
            if any(v.klass == klass for v in vs):
                current = cand
                improved = True
                break
            if time.monotonic() - t1 > budget_s / 2:
                # one candidate costs more than half the budget (a hang that runs into the CPU limit):
                # minimisation is not worth its price here
                return current, tries
    return current, tries


# ---------------------------------------------------------------------------
# replay files


def write_replay(prop: str, seed: int, case: Any, v: dict[str, Any], minimised: bool, note: str = "", readable: Any = None) -> str:
    d = os.environ.get("VERIF_REPLAY_DIR") or os.path.join(core.VERIF_DIR, "replays")
    os.makedirs(d, exist_ok=True)
    name = f"{prop}-{core.digest([case, v['class']])[:12]}.json"
    path = os.path.join(d, name)
    with open(path, "w", encoding="utf-8") as f:
        json.dump(
            {
                "property": prop,
                "seed": seed,
                "violation": v,
                "minimised": minimised,
                "note": note,
                "readable": readable,
                "case": core.to_jsonable(case),
            },
            f,
            indent=1,
            sort_keys=True,
        )
    return path


def _readable(mod: Any, case: Any) -> Any:
    try:
        return core.to_jsonable(mod.sample_of(case)) if hasattr(mod, "sample_of") else None
    except Exception:
        return None


def replay(prop: str, path: str) -> int:
    mod = _load(prop)
    with open(path, encoding="utf-8") as f:
        rec = json.load(f)
    case = core.from_jsonable(rec["case"])
    want = rec.get("violation", {}).get("class")
    vs = mod.run_case(case, Stats())
    known = load_known(prop)
    for v in vs:
        if want is None or v.klass == want:
            k = match_known(known, v)
            if k is not None:
                print(f"KNOWN-FINDING: property={prop} {k['what']}")
                continue
            print(f"seed={rec.get('seed')} class={v.klass} sig={v.sig}")
            print(f"  {v.msg}")
            print(f"VIOLATION property={prop} replay={path}")
            return 1
    if vs:
        print(f"NOT-REPRODUCED (different class now: {[v.klass for v in vs]})")
        for v in vs:
            if match_known(known, v) is None:
                print(f"  {v.klass}: {v.msg}")
                print(f"VIOLATION property={prop} replay={path}")
                return 1
        return 0
    print("NOT-REPRODUCED")
    return 0


# ---------------------------------------------------------------------------
# main driver


def chunked(items: list[Any], n: int) -> Iterable[list[Any]]:
    for i in range(0, len(items), n):
        yield items[i : i + n]


def run_check(prop: str, tier: str, seed: int, jobs: int, budget_s: float) -> int:
    t0 = time.time()
    mod = _load(prop)
    from . import simenv

    simenv.sweep_stale_sandboxes()
    print(f"VERIF_SEED={seed} property={prop} tier={tier} jobs={jobs} repo={core.REPO}")
    plan = mod.plan(tier)  # {"fixed": [...cases], "seeded": n, "chunk": k, "wall_cap_s": s}
    fixed: list[Any] = list(plan.get("fixed") or [])
    # regression corpus first
    corpus_dir = os.path.join(core.VERIF_DIR, "corpus", prop)
    corpus: list[Any] = []
    if os.path.isdir(corpus_dir):
        for name in sorted(os.listdir(corpus_dir)):
            if name.endswith(".json"):
                with open(os.path.join(corpus_dir, name), encoding="utf-8") as f:
                    corpus.append(core.from_jsonable(json.load(f)["case"]))
    items: list[tuple[str, Any]] = [("fixed", c) for c in corpus] + [("fixed", c) for c in fixed]
    n_seeded = int(plan.get("seeded", 0))
    chunk = int(plan.get("chunk", 8))
    wall_cap = float(plan.get("wall_cap_s", 240.0))
    if tier == "thorough":
        wall_cap = budget_s

    total = Stats()
    found: list[dict[str, Any]] = []
    errors: list[str] = []
    skipped = 0
    next_index = 0
    global _STOP_FILE
    _STOP_FILE = os.path.join(simenv.scratch_base(), f"a816-verif-stop-{os.getpid()}")
    try:
        os.unlink(_STOP_FILE)
    except OSError:
        pass
    ctx = multiprocessing.get_context("fork")
    with cf.ProcessPoolExecutor(max_workers=jobs, mp_context=ctx) as pool:
        pending: set[cf.Future[Any]] = set()

        def submit(batch: list[tuple[str, Any]]) -> None:
            pending.add(pool.submit(_worker_chunk, prop, seed, tier, batch))

        for batch in chunked(items, max(1, chunk)):
            submit(batch)
        limit: float = n_seeded if tier == "quick" else float(plan.get("thorough_max", float("inf")))
        stop = False
        while True:
            while not stop and len(pending) < jobs * 2 and next_index < limit:
                k = int(min(chunk, limit - next_index))
                submit([("seeded", next_index + j) for j in range(k)])
                next_index += k
            if not pending:
                break
            done, pending = cf.wait(pending, timeout=5.0, return_when=cf.FIRST_COMPLETED)
            for fut in done:
                try:
                    st, fnd, errs = fut.result()
                except Exception:
                    errors.append("HARNESS-ERROR (pool) " + traceback.format_exc())
                    stop = True
                    continue
                total.merge(st)
                found.extend(fnd)
                errors.extend(errs)
            elapsed = time.time() - t0
            if found and len({f["v"]["class"] + "|" + f["v"]["sig"] for f in found}) >= 5:
                stop = True
            if errors or elapsed > wall_cap:
                stop = True
            if found and elapsed > 90:
                stop = True  # something is reported already: do not spend minutes collecting more
            if stop:
                if (found or errors) and not os.path.exists(_STOP_FILE):
                    open(_STOP_FILE, "w").close()
                for fut in list(pending):
                    if fut.cancel():
                        pending.discard(fut)
                        skipped += 1
                limit = next_index
    explore_s = time.time() - t0
    try:
        os.unlink(_STOP_FILE)
    except OSError:
        pass
    _STOP_FILE = ""

    # ---- verdicts
    known = load_known(prop)
    exit_code = 0
    max_report = min(int(os.environ.get("VERIF_MAX_REPORT", "5")), int(plan.get("max_report", 5)))  # distinct violations minimised and written out
    reported: set[str] = set()
    known_hit: dict[str, str] = {}
    n_viol = 0
    for f in found:
        v = f["v"]
        key = v["class"] + "|" + v["sig"]
        if key in reported:
            continue
        reported.add(key)
        vobj = Violation(v["class"], v["sig"], v["msg"], None)
        k = match_known(known, vobj)
        if k is not None:
            known_hit[key] = k["what"]
            continue
        n_viol += 1
        if n_viol > max_report:
            exit_code = 1
            continue  # already reported enough distinct violations in full (minimised, with a replay file)
        case = core.from_jsonable(f["case"])
        mini, tries = minimise(mod, case, v["class"], float(plan.get("minimise_s", 20.0)))
        note = f"minimised with {tries} candidate runs"
        unchanged = mini is case
        if unchanged:
            # nothing smaller reproduced: the case is the one the search executed a moment ago
            same = [None]
            note += " (no smaller case reproduced)"
        else:
            # replay the minimised case once more before writing it
            try:
                vs = mod.run_case(mini, Stats())
                same = [x for x in vs if x.klass == v["class"]]
            except Exception:
                same = []
        if same:
            vrec = v if unchanged else same[0].to_dict()
            path = write_replay(prop, seed, mini, vrec, True, note, _readable(mod, mini))
        else:
            vrec = v
            path = write_replay(prop, seed, case, v, False, "minimised case did not reproduce; original case recorded", _readable(mod, case))
        print(f"seed={seed} case_index={case.get('meta', {}).get('index') if isinstance(case, dict) else None} class={vrec['class']} sig={vrec['sig']}")
        print(f"  {vrec['msg']}")
        print(f"VIOLATION property={prop} replay={path}")
        exit_code = 1
    for key, what in sorted(known_hit.items()):
        print(f"KNOWN-FINDING: property={prop} {what}")
    if errors:
        for e in errors[:5]:
            print(e, file=sys.stderr)
        print(f"HARNESS-ERROR property={prop} ({len(errors)} harness errors; no verdict)", file=sys.stderr)
        if exit_code == 0:
            exit_code = 2

    wall = time.time() - t0
    # ---- evidence
    ev = mod.evidence(total, tier) if hasattr(mod, "evidence") else {}
    coverage: dict[str, Any] = {
        "evaluations": total.evaluations,
        "cases": total.cases,
        "distinct_nontrivial": len(total.states),
        "rule": mod.RULE,
        "samples": total.samples[:4],
        "io_operations_simulated": total.io_ops,
        "interpreter_steps_simulated": total.steps,
        "executions_per_hour": int(total.evaluations / max(explore_s, 1e-6) * 3600),
        "cases_per_hour": int(total.cases / max(explore_s, 1e-6) * 3600),
        "seeded_case_indices": [0, next_index],
        "corpus_cases": len(corpus),
        "systematic_cases": len(fixed),
        "chunks_skipped_by_wall_cap_or_stop": skipped,
        "fault_matrix": {k: v for k, v in sorted(total.counters.items()) if k.startswith("fault_fired:")},
        "benign_perturbations": {k: v for k, v in sorted(total.counters.items()) if k.startswith("benign:")},
        "probes": {k: v for k, v in sorted(total.counters.items()) if k.startswith("probe:")},
        "other_counters": {k: v for k, v in sorted(total.counters.items()) if not k.startswith(("fault_fired:", "benign:", "probe:"))},
        "known_findings_hit": sorted(known_hit.values()),
        "harness_errors": len(errors),
        "exhaustive": False,
    }
    coverage.update(ev)
    evidence = {
        "property_id": prop,
        "tier": tier,
        "seed": seed,
        "level": mod.LEVEL,
        "coverage": coverage,
        "assumptions": mod.ASSUMPTIONS,
        "wall_s": round(wall, 2),
        "violations": n_viol,
    }
    evdir = os.environ.get("VERIF_EVIDENCE_DIR") or os.path.join(core.VERIF_DIR, "evidence")
    os.makedirs(evdir, exist_ok=True)
    evpath = os.path.join(evdir, f"{prop}.json")
    if os.environ.get("VERIF_DIGESTS"):
        with open(os.environ["VERIF_DIGESTS"], "w", encoding="utf-8") as f:
            json.dump(total.case_chains, f, sort_keys=True, indent=0)
    tmp = evpath + ".tmp"
    with open(tmp, "w", encoding="utf-8") as f:
        json.dump(evidence, f, indent=1, sort_keys=True)
    os.replace(tmp, evpath)
    zero = [k for k in getattr(mod, "REQUIRED_REACH", []) if total.counters.get(k, 0) == 0]
    print(
        f"property={prop} tier={tier} cases={total.cases} executions={total.evaluations} distinct_states={len(total.states)} "
        f"violations={n_viol} known={len(known_hit)} wall={wall:.1f}s"
    )
    if zero and exit_code == 0 and not errors:
        print(f"REACH-WARNING property={prop} counters stuck at zero: {zero}", file=sys.stderr)
    return exit_code


def main(argv: list[str] | None = None) -> int:
    ap = argparse.ArgumentParser(prog="check")
    ap.add_argument("prop")
    ap.add_argument("--tier", default=os.environ.get("VERIF_TIER", "quick"), choices=["quick", "thorough"])
    ap.add_argument("--replay")
    ap.add_argument("--seed", type=int, default=None)
    ap.add_argument("--jobs", type=int, default=int(os.environ.get("VERIF_JOBS", "16")))
    ap.add_argument("--budget", type=float, default=float(os.environ.get("VERIF_BUDGET_S", "600")))
    args = ap.parse_args(argv)
    prop = args.prop.upper()
    if prop not in PROPS:
        print(f"unknown or unclaimed property {prop}", file=sys.stderr)
        return 2
    try:
        core.import_repo()
        seed = args.seed if args.seed is not None else core.base_seed()
        if args.replay:
            return replay(prop, args.replay)
        return run_check(prop, args.tier, seed, args.jobs, args.budget)
    except HarnessError as e:
        print(f"HARNESS-ERROR {e}", file=sys.stderr)
        return 2
    except Exception:
        traceback.print_exc()
        print("HARNESS-ERROR unexpected exception in driver", file=sys.stderr)
        return 2
