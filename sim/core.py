"""Core of the simulator: seeds, canonical digests, repo import, fork executor.

Nothing in this module draws from a PRNG or reads a clock on a logging path.
Wall-clock reads are confined to (a) evidence wall_s and (b) harness safety
time-outs, neither of which influences a verdict or a generated case.
"""
from __future__ import annotations

import hashlib
import io
import json
import os
import pickle
import random
import select
import signal
import sys
import time
import traceback
from typing import Any, Callable

VERIF_DIR = os.path.dirname(os.path.dirname(os.path.abspath(__file__)))
REPO = os.path.abspath(os.environ.get("VERIF_REPO", "/repo"))

sys.dont_write_bytecode = True


class HarnessError(Exception):
    """Raised for impossible states of the harness itself (exit status 2)."""


# ---------------------------------------------------------------------------
# repository import


def import_repo() -> None:
    """Put the tree under test first on sys.path and assert a816 comes from it."""
    if sys.path[0] != REPO:
        sys.path.insert(0, REPO)
    from . import blocking

    blocking.install()  # before the tree under test creates its module-level locks
    import a816  # noqa: F401
    import a816.cli  # noqa: F401
    import a816.program  # noqa: F401
    import script  # noqa: F401

    for mod in (a816, script):
        f = os.path.abspath(getattr(mod, "__file__", "") or "")
        if not f.startswith(REPO + os.sep):
            raise HarnessError(f"{mod.__name__} imported from {f}, not from {REPO}")


# ---------------------------------------------------------------------------
# seeds


def base_seed() -> int:
    return int(os.environ.get("VERIF_SEED", "816"))


def case_seed(seed: int, prop: str, index: int | str) -> int:
    h = hashlib.blake2b(f"{seed}:{prop}:{index}".encode(), digest_size=8).digest()
    return int.from_bytes(h, "big")


def substream(cseed: int, label: str) -> random.Random:
    h = hashlib.blake2b(f"{cseed}/{label}".encode(), digest_size=8).digest()
    return random.Random(int.from_bytes(h, "big"))


# ---------------------------------------------------------------------------
# canonical JSON / digests


def _canon(o: Any) -> Any:
    if isinstance(o, (bytes, bytearray)):
        return {"$hex": bytes(o).hex()}
    if isinstance(o, dict):
        return {str(k): _canon(v) for k, v in o.items()}
    if isinstance(o, (list, tuple)):
        return [_canon(v) for v in o]
    if isinstance(o, (set, frozenset)):
        return sorted(_canon(v) for v in o)
    if isinstance(o, (str, int, float, bool)) or o is None:
        return o
    return repr(o)


def canon_json(o: Any) -> str:
    return json.dumps(_canon(o), sort_keys=True, separators=(",", ":"))


def digest(o: Any) -> str:
    return hashlib.blake2b(canon_json(o).encode(), digest_size=12).hexdigest()


def to_jsonable(o: Any) -> Any:
    return _canon(o)


def from_jsonable(o: Any) -> Any:
    if isinstance(o, dict):
        if set(o.keys()) == {"$hex"}:
            return bytes.fromhex(o["$hex"])
        return {k: from_jsonable(v) for k, v in o.items()}
    if isinstance(o, list):
        return [from_jsonable(v) for v in o]
    return o


# ---------------------------------------------------------------------------
# fork executor

CHILD_WALL_S = float(os.environ.get("VERIF_CHILD_WALL_S", "120"))


class ChildTimeout(Exception):
    pass


class ChildCrashed(Exception):
    pass


class ChildCpuExceeded(Exception):
    """The child used up its CPU-time limit (RLIMIT_CPU): a loop the step clock cannot see (C code)."""


def run_child(fn: Callable[..., Any], *args: Any, wall_s: float | None = None, mem_bytes: int | None = None, cpu_s: int | None = None) -> Any:
    """Run fn(*args) in a forked child and return its (pickled) result.

    The caller (a worker) never runs repository code itself, so the child
    starts from the image "interpreter + freshly imported a816".
    A wall-clock overrun is a harness time-out (never a verdict).
    """
    wall = CHILD_WALL_S if wall_s is None else wall_s
    r, w = os.pipe()
    sys.stdout.flush()
    sys.stderr.flush()
    pid = os.fork()
    if pid == 0:
        code = 0
        try:
            os.close(r)
            # The collector's trigger point depends on how many objects the *worker* happened to
            # allocate before the fork; finalizers it runs are Python code and would show up as
            # steps of the deterministic clock.  Children are short-lived: collect once, then
            # keep the collector off so that step counts are a pure function of the case.
            import gc

            gc.collect()
            gc.disable()
            if mem_bytes:
                import resource

                resource.setrlimit(resource.RLIMIT_AS, (mem_bytes, mem_bytes))
            if cpu_s:
                import resource

                resource.setrlimit(resource.RLIMIT_CPU, (cpu_s, cpu_s + 2))
            try:
                res = ("ok", fn(*args))
            except BaseException:  # harness-level failure inside the child
                res = ("harness_error", traceback.format_exc())
            try:
                payload = pickle.dumps(res, protocol=4)
            except BaseException:
                payload = pickle.dumps(("harness_error", "unpicklable result: " + traceback.format_exc()))
            view = memoryview(payload)
            while view:
                n = os.write(w, view[: 1 << 16])
                view = view[n:]
        except BaseException:
            code = 3
        finally:
            os._exit(code)
    os.close(w)
    chunks: list[bytes] = []
    deadline = time.monotonic() + wall
    timed_out = False
    try:
        while True:
            left = deadline - time.monotonic()
            if left <= 0:
                timed_out = True
                break
            ready, _, _ = select.select([r], [], [], min(left, 1.0))
            if not ready:
                continue
            b = os.read(r, 1 << 16)
            if not b:
                break
            chunks.append(b)
    finally:
        os.close(r)
        if timed_out:
            try:
                os.kill(pid, signal.SIGKILL)
            except ProcessLookupError:
                pass
        _, status = os.waitpid(pid, 0)
    if timed_out:
        raise ChildTimeout(f"child exceeded {wall}s wall clock (harness safety net)")
    data = b"".join(chunks)
    if not data:
        if os.WIFSIGNALED(status) and os.WTERMSIG(status) in (signal.SIGXCPU, signal.SIGKILL) and cpu_s:
            raise ChildCpuExceeded(f"child used more than {cpu_s}s of CPU time")
        raise ChildCrashed(f"child died without a result (wait status {status})")
    kind, val = pickle.loads(data)
    if kind == "harness_error":
        raise HarnessError("in child:\n" + val)
    return val


# ---------------------------------------------------------------------------
# capturing the process interface inside a child


_LOGGING_STATE = {"configured": False}  # has logging.basicConfig() configured the root logger in this process?


class Capture:
    """Captures logging records, stdout and stderr for one execution."""

    def __init__(self) -> None:
        import logging

        self.records: list[tuple[str, int, str]] = []
        self._seen: dict[int, Any] = {}  # id -> record; keeps records alive so ids are never reused
        outer = self

        class _H(logging.Handler):
            def emit(self, record: logging.LogRecord) -> None:
                if id(record) in outer._seen:
                    return
                outer._seen[id(record)] = record
                try:
                    msg = record.getMessage()
                except Exception:
                    msg = str(record.msg)
                outer.records.append((record.name, record.levelno, msg))

        self.handler = _H(level=0)
        self.stdout = io.StringIO()
        self.stderr = io.StringIO()

    def __enter__(self) -> "Capture":
        import logging

        self._old = (sys.stdout, sys.stderr)
        sys.stdout, sys.stderr = self.stdout, self.stderr
        root = logging.getLogger()
        # Logger *levels* are process state of the program under test: they are neither raised for the
        # capture nor restored afterwards (a level one run sets is what the next run in the process finds).
        # The capture handler therefore sees exactly the records a real handler would see.
        root.addHandler(self.handler)
        for name in ("x816", "a816", "a816.parser", "a816.nodes"):
            logging.getLogger(name).addHandler(self.handler)
        # logging.basicConfig() does nothing once the root logger has a handler - and ours is one.  Emulate
        # what it does in a process without this harness: the first call configures (sets the level; the
        # stream handler it would add is represented by the capture), later calls are no-ops.
        self._real_basic_config = logging.basicConfig

        def _basic_config(**kw: Any) -> None:
            st = _LOGGING_STATE
            if st["configured"] and not kw.get("force"):
                return
            st["configured"] = True
            if kw.get("level") is not None:
                root.setLevel(kw["level"])

        logging.basicConfig = _basic_config  # type: ignore[assignment]
        # Parser.parse() calls logger.exception(); keep the default
        # lastResort handler from writing to the real stderr.
        logging.lastResort = None  # type: ignore[assignment]
        return self

    def __exit__(self, *exc: Any) -> None:
        import logging

        sys.stdout, sys.stderr = self._old
        logging.basicConfig = self._real_basic_config  # type: ignore[assignment]
        root = logging.getLogger()
        root.removeHandler(self.handler)
        for name in ("x816", "a816", "a816.parser", "a816.nodes"):
            logging.getLogger(name).removeHandler(self.handler)

    def announced_success(self) -> bool:
        for name, level, msg in self.records:
            if "success" in msg.lower() and level < 30:
                return True
        if "success !" in self.stdout.getvalue().lower():
            return True
        return False


_ADDR_RE = None


def scrub(text: str) -> str:
    """Remove object addresses from a message so it compares across processes."""
    global _ADDR_RE
    import re

    if _ADDR_RE is None:
        _ADDR_RE = re.compile(r"0x[0-9a-fA-F]{8,16}")
    return _ADDR_RE.sub("0x?", text)


def describe_exc(e: BaseException) -> dict[str, str]:
    try:
        text = str(e)
    except BaseException as inner:  # noqa: BLE001 - a broken __str__ in the code under test is an outcome, not a harness error
        text = f"<str() of the exception raised {type(inner).__name__}: {inner}>"
    return {"type": type(e).__name__, "msg": scrub(text)[:400]}


# ---------------------------------------------------------------------------
# fresh interpreters (interpreter flags and hash seed are part of the environment)


def _fresh_fn_main(path: str) -> None:
    import importlib

    with open(path, "rb") as f:
        modname, fname, args = pickle.load(f)
    import_repo()
    res = getattr(importlib.import_module(modname), fname)(*args)
    sys.stdout.buffer.write(pickle.dumps(res))


def run_fresh_fn(modname: str, fname: str, args: tuple[Any, ...], hashseed: str = "0", pyflags: list[str] | None = None, wall_s: float = 120.0) -> Any:
    """modname.fname(*args) in a brand-new interpreter started with the given flags (e.g. ["-O"]) and
    PYTHONHASHSEED; the tree under test is imported there from scratch."""
    import subprocess
    import tempfile

    fd, job = tempfile.mkstemp(prefix="a816-verif-job-", dir="/dev/shm" if os.path.isdir("/dev/shm") else None)
    try:
        with os.fdopen(fd, "wb") as f:
            pickle.dump((modname, fname, args), f)
        env = dict(os.environ, PYTHONHASHSEED=hashseed, PYTHONDONTWRITEBYTECODE="1", VERIF_REPO=REPO)
        env.pop("PYTHONOPTIMIZE", None)
        code = "import sys; sys.path.insert(0, %r); from sim.core import _fresh_fn_main; _fresh_fn_main(%r)" % (VERIF_DIR, job)
        try:
            p = subprocess.run(["/venv/bin/python", "-B"] + list(pyflags or []) + ["-c", code], env=env, capture_output=True, timeout=wall_s, cwd=VERIF_DIR)
        except subprocess.TimeoutExpired:
            raise ChildTimeout(f"fresh interpreter run exceeded {wall_s} s")
        if p.returncode != 0 or not p.stdout:
            raise HarnessError(f"fresh interpreter run failed: rc={p.returncode} stderr={p.stderr[-500:]!r}")
        return pickle.loads(p.stdout)
    finally:
        try:
            os.unlink(job)
        except OSError:
            pass
