#!/bin/sh
# tools/thorough_all.sh [budget-seconds] [seed] : the thorough tier of every check on the unchanged tree, one
# after the other; evidence and replays go to a scratch directory (the committed evidence stays that of the
# quick tier).  Any exit != 0 is a false alarm (or a harness error) to investigate.
budget="${1:-600}"; seed="${2:-816}"
here="$(cd "$(dirname "$0")/.." && pwd)"
out="${SOAK_OUT:-$here/soak_out}/thorough"; mkdir -p "$out"
for p in C11 C12 C13 C14 C15 C19; do
  VERIF_SEED=$seed VERIF_BUDGET_S=$budget VERIF_EVIDENCE_DIR="$out/ev" VERIF_REPLAY_DIR="$out/replays" "$here/check" $p --tier thorough > "$out/$p-$seed.log" 2>&1
  rc=$?
  tail -1 "$out/$p-$seed.log" | sed "s/^/thorough seed=$seed rc=$rc /"
  [ $rc -ne 0 ] && echo "ALARM thorough prop=$p rc=$rc (see $out/$p-$seed.log)"
done
