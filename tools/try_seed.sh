#!/bin/sh
# tools/try_seed.sh <worktree-with-change-applied> <PROP> [more props...]
# Confirms the seeded change (tests pass, demo fails with / passes without), then runs the checks against it.
wt="$1"; shift
cd "$wt" || exit 2
echo "== tests with change:"; /venv/bin/python -m pytest -q -p no:cacheprovider 2>&1 | tail -1
/venv/bin/python SEED/demo.py >/dev/null 2>&1; echo "== demo with change: exit $?"
git stash -q -- a816 script 2>/dev/null || git stash -q
/venv/bin/python SEED/demo.py >/dev/null 2>&1; echo "== demo without change: exit $?"
git stash pop -q
out=/dev/shm/seedrun-$$; mkdir -p $out
for p in "$@"; do
  echo "== check $p against the change:"
  VERIF_REPO="$wt" VERIF_EVIDENCE_DIR=$out VERIF_REPLAY_DIR=$out /verif/check $p --tier quick 2>&1 | grep -v '^VERIF_SEED' | cut -c1-400 | tail -8
  echo "   exit=$?"
done
rm -rf $out
