#!/usr/bin/env python3
"""python3-vt tools/validate.py : validates MANIFEST.json and evidence/*.json against the schemas."""
import glob, json, sys
import jsonschema
ok = True
m = json.load(open('/verif/MANIFEST.json'))
jsonschema.validate(m, json.load(open('/root/.vp/MANIFEST.schema.json')))
props = [json.loads(l)['id'] for l in open('/verif/properties.jsonl')]
claimed = [c['property_id'] for c in m['checks']]
na = [n['property_id'] for n in m.get('not_applicable', [])]
assert sorted(claimed + na) == sorted(props), (claimed, na)
es = json.load(open('/root/.vp/EVIDENCE.schema.json'))
for p in glob.glob('/verif/evidence/*.json'):
    try:
        jsonschema.validate(json.load(open(p)), es)
    except Exception as e:
        ok = False
        print('INVALID', p, str(e)[:300])
print('manifest ok; claimed', claimed, 'evidence ok' if ok else 'evidence INVALID')
sys.exit(0 if ok else 1)
