#!/usr/bin/env python3
"""Regenerates /verif/MANIFEST.json (kept valid at all times; validated by tools/validate.py)."""
import json
import os

HERE = os.path.dirname(os.path.dirname(os.path.abspath(__file__)))

NA = {
    "C01": "pure function of one instruction's text; no schedule, clock, fault or history to simulate (DESIGN.md 3.2)",
    "C02": "label/size agreement between passes is a deterministic function of program text; nothing external can interleave or fail between passes",
    "C03": "the (block,address) sequence is a pure function of program text and mapping; no fault or history in the statement",
    "C04": "bus arithmetic over integers and .map parameters; exhaustive enumeration, no I/O, no environment",
    "C05": "branch displacement is a pure function of program text and mapping; no environment",
    "C06": "expression value is a pure function of the expression text; needs an independent evaluator, not a simulator",
    "C07": "byte layout of data directives is a pure function of values; .incbin's only I/O is one whole-file read whose faults belong to C14",
    "C08": "scope resolution is a pure function of nesting structure in the text; not perturbable from outside",
    "C09": "macro == inlining is a metamorphic relation between two source texts; no environment",
    "C10": ".if/.for == hand expansion is a relation between two source texts; no environment",
    "C16": "layout independence is a relation between a text and its re-layouts; no fault, order or timing",
    "C17": "error location is a pure function of source text(s); its 'faults' are erroneous statements, i.e. inputs (status side is C14)",
    "C18": "table encoding/round trip is a pure function of table text and string",
    "C20": "closed-form address conversions over an integer range; exhaustive enumeration, no I/O",
}

CHECKS = {
    "C11": dict(
        category="exploration",
        text="Seeded search over write histories on the real IPSWriter (BytesIO and a real BufferedWriter over the simulated raw file, seeded buffer size, short raw writes, the k-th raw write failing, a second writer driven in between, refusals after which the caller goes on), each writer call under the deterministic step clock, judged on the bytes that reached the stream by an independent IPS reader/applier against the model 'blocks applied in write order'. Block contents are random, uniform, run-structured, padding-like (0x00/0xFF tails) or carry the format's magic strings; lengths include powers of two and their multiples; blocks overlap, touch or lie a few bytes apart; a sample runs with caller-configured logging and in fresh interpreters started with -O. The boundary families (every length around multiples of 65535 x both header settings x marker/limit addresses; A,B,A overlap sequences; headers whose offset and length bytes spell the marker) are enumerated completely on every run; the rest is sampled, so a clean run is evidence, not proof.",
        design_ref="DESIGN.md 3.1 C11",
        note="Trusts sim/ipsref.py as the definition of a standard IPS patcher; streams are assumed to honour full writes (BytesIO/BufferedWriter); concurrent writers are out of scope.",
        technique="deterministic simulation: seeded write histories + raw-write fault injection, reference IPS patcher as oracle",
    ),
    "C12": dict(
        category="exploration",
        text="Whole-program simulation of the CLI and file APIs inside a sandboxed file system (argv, exit status, logging and the raw file layer owned by the simulator; buffer sizes, short raw I/O, stale output files, path style, source and output file names, CR LF text files, sources longer than any read chunk full of multi-byte characters, sub-directories, argv order, option spellings and extra flags, the locale's default text encoding, warnings-as-errors perturbed by seed) over the option lattice format x mapping x copier-header x defines, compared with a pristine-fork in-memory twin; the symbol file is also checked against label-definition counts derived from the program text alone. Lattice points are covered systematically per program; programs are sampled; a sample of CLI runs is repeated as a true subprocess.",
        design_ref="DESIGN.md 3.1 C12",
        note="The in-memory API run in a pristine fork is the reference; low2 is judged against the low mapping through its mirror range; only programs whose twin succeeds are judged.",
        technique="deterministic simulation: sandboxed environment + benign I/O perturbation, differential against in-memory twin",
    ),
    "C13": dict(
        category="fault_enumeration",
        text="Generated third-party-style patches (and patches written by a816's own IPSWriter) stored on the simulated disk and read through CPython's real BufferedReader with seeded buffer size, short raw reads and pipe-like delivery; the directive is placed at every kind of assembled slot, with literal / symbol / macro-argument / reassigned deltas, included once or twice (also one directive in a macro body expanded twice with different deltas), named through plain, sub-directory, absolute, './', 'dir/../' and symlink-then-'..' paths, landing in a free zone or at the very start of the image, through the in-memory API and through assemble_as_patch with and without the copier header. Storage damage (EOF at every offset of small patches, boundary offsets of large ones, dropped header, flipped bytes, lost/duplicated chunks), ENOENT and EIO on every raw read are enumerated per patch; the damaged bytes are classified independently by sim/ipsref.py.",
        design_ref="DESIGN.md 3.1 C13",
        note="No accept/reject verdict for bytes after the EOF marker (the statement is silent); a missing EOF marker counts as not well-formed; record targets never overlap the host program's own output.",
        technique="deterministic simulation: stored-file damage enumeration + buffered-reader perturbation, reference IPS reader as oracle",
    ),
    "C14": dict(
        category="fault_enumeration",
        text="For each generated base program: ~60 definite source-error classes at the statement slots where they are errors by construction, every I/O crash point (each raw open/read/write/close the fault-free run performed, per role, several errnos) of all five entry points, a failing user Writer at every block, a sample of failing executions repeated in the same process, and failing programs derived from the valid one by deleting a definition (given to an entry point alone or right after the valid original in the same process), plus every error class in fresh interpreters started with -O; the status that crosses the API/process boundary is compared with what was injected and with what reached the disk.",
        design_ref="DESIGN.md 3.1 C14",
        note="Exceptions count as failure reports; message text and the particular non-zero value are not judged; success announcements are recognised by the word 'success' on a log record below WARNING or on stdout.",
        technique="deterministic simulation: complete per-run enumeration of I/O crash points and error slots across entry points",
    ),
    "C15": dict(
        category="fault_enumeration",
        text="Storage faults applied to the stored source, included files, table files and patch files of valid workloads (EOF at every byte offset of small files, lost/duplicated/swapped chunks, flipped and garbage bytes, NUL sectors, single-character edits inside strings), plus seeded token soup and structured stress workloads, with the assembler run under a deterministic interpreter-step clock; a run that exceeds a budget three orders of magnitude above the fault-free run (or, for loops inside C code, a CPU-time limit) is a replayable non-termination; locks, condition waits and sleeps go through a blocking seam, so a single-threaded self-deadlock is reported as 'blocks forever' instead of hanging the harness; terminal size and selected environment variables are decided per execution by the simulator.",
        design_ref="DESIGN.md 3.1 C15",
        note="Exhaustive enumeration of all short token sequences is model checking and is not attempted; loops inside C code (regular expressions) execute no interpreter step and are judged by a CPU-time limit on the child instead of the step clock; explicit loop counts above 64 give no verdict.",
        technique="deterministic simulation: torn/damaged source enumeration under a deterministic step clock",
    ),
    "C19": dict(
        category="exploration",
        text="Seeded histories of assemblies (valid, failing at injected crash points, custom .map, other ROM types, CLI runs in sub-directories, the caller changing into other project directories, the probe's own text under other layouts / defines, torn sources, long sources, file rewrites) executed in one process - working directory and interpreter settings included - before a probe; the probe's result is compared with the same probe alone in a pristine fork and repeated immediately; a sample of these, and systematically every error class and a set of misspelt directives as failing probes, is cross-checked in fresh interpreters under other PYTHONHASHSEED values; half of the failing probes are preceded by a history program that fails the same way.",
        design_ref="DESIGN.md 3.1 C19",
        note="Only public observation points are compared (return/exception, blocks, labels, output files); threads are out of scope; reuse of one Program object is not promised by the statement.",
        technique="deterministic simulation: seeded operation histories with crash injection, pristine-process reference",
    ),
}

ENABLED = [p for p in ["C11", "C12", "C13", "C14", "C15", "C19"] if os.path.exists(os.path.join(HERE, "sim", "props", p.lower() + ".py")) and not os.path.exists(os.path.join(HERE, "sim", "props", p.lower() + ".disabled"))]


def main() -> None:
    checks = []
    for p in ENABLED:
        c = CHECKS[p]
        checks.append(
            {
                "property_id": p,
                "quick_cmd": f"./check {p} --tier quick",
                "thorough_cmd": f"./check {p} --tier thorough",
                "evidence_file": f"evidence/{p}.json",
                "replay_cmd_template": f"./check {p} --replay {{path}}",
                "engine": "a816-dst",
                "level_claimed": {"category": c["category"], "text": c["text"], "design_ref": c["design_ref"]},
                "level_note": c["note"],
                "technique": c["technique"],
            }
        )
    na = dict(NA)
    for p in CHECKS:
        if p not in ENABLED:
            na[p] = "check not built yet in this snapshot of /verif (claimed in DESIGN.md; will move to checks[] when its machinery is committed)"
    m = {
        "version": 1,
        "setup_cmd": "/venv/bin/python -B -c \"import sys; sys.path.insert(0,'.'); import sim.runner, sim.simenv, sim.ipsref, sim.stepclock, sim.entries; print('a816-dst ready')\"",
        "hooks": {
            "guard": "MANZ_A816_VERIF",
            "enable": "no hooks: every seam (builtins.open/io.open, sys.argv, SystemExit, logging, Writer/BinaryIO arguments) is reached from outside the repository; checks import a816 from /repo's working tree (VERIF_REPO) with bytecode writing disabled",
            "baseline_off_cmd": "cd /repo && /venv/bin/python -m pytest -ra -q -p no:cacheprovider --timeout=900 --continue-on-collection-errors",
            "source_commits": [],
            "add_only": True,
        },
        "engines": [
            {
                "name": "a816-dst",
                "path": "sim/",
                "serves_properties": ENABLED,
                "kind_free_text": "deterministic simulator written for this repository: sandboxed tmpfs file system, raw-file shim under CPython's real buffered I/O (fault and short-I/O injection), argv/exit/log capture, fork-per-execution from workers that never run a816 code, sys.monitoring step clock, seeded case generation, greedy minimisation, replay files holding the concrete case",
            }
        ],
        "checks": checks,
        "notes": "Deterministic simulation with fault injection; see DESIGN.md. Exit 0 held / 1 VIOLATION / 2 harness error. Known findings: known_findings.txt.",
        "not_applicable": [{"property_id": k, "reason": v} for k, v in sorted(na.items())],
    }
    with open(os.path.join(HERE, "MANIFEST.json"), "w") as f:
        json.dump(m, f, indent=1)
        f.write("\n")


if __name__ == "__main__":
    main()
