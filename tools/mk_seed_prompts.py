#!/usr/bin/env python3
"""tools/mk_seed_prompts.py <letter>=<flavour text> ... : creates scratch worktrees /tmp/seed_<PROP>_<letter>
and prompt files /tmp/agent_<PROP>_<letter>.txt for independent sub-agents (they get the property text, the
list of ideas already used, and their own worktree - nothing from /verif)."""
import json, os, subprocess, sys
HERE = os.path.dirname(os.path.dirname(os.path.abspath(__file__)))
tail = open(os.path.join(HERE, "tools", "seed_prompt_tail.txt")).read()
used = json.load(open(os.path.join(HERE, "tools", "seed_ideas_used.json")))
flavours = dict(a.split("=", 1) for a in sys.argv[1:])
for line in open(os.path.join(HERE, "properties.jsonl")):
    d = json.loads(line)
    if d["id"] not in used:
        continue
    txt = f"""PROPERTY {d['id']}: {d['title']}

Statement: {d['statement']}

Quantifier: {d['quantifier']['text']}

Anchors (where the behaviour lives): {json.dumps(d['anchors'].get('mechanism'))}
Observe at: {json.dumps(d['anchors'].get('observe_at'))}

Ideas ALREADY USED by other people for this property (do something genuinely different - a different mechanism AND a different trigger): {used[d['id']]}
"""
    for letter, fl in flavours.items():
        wt = f"/tmp/seed_{d['id']}_{letter}"
        if not os.path.isdir(wt):
            subprocess.run(["git", "-C", "/repo", "worktree", "add", "--detach", "-q", wt, "HEAD"], check=True)
        os.makedirs(os.path.join(wt, "SEED"), exist_ok=True)
        with open(f"/tmp/agent_{d['id']}_{letter}.txt", "w") as f:
            f.write(txt + tail.replace("{WT}", wt).replace("{FLAVOUR}", fl))
        print(wt)
