#!/bin/sh
# tools/soak.sh <first-seed> <last-seed> [props...] : runs the quick tier of each check under many seeds
# on the unchanged tree; any exit != 0 is a false alarm (or a harness error) to investigate.
first=$1; last=$2; shift 2
props="${*:-C11 C12 C13 C14 C15 C19}"
here="$(cd "$(dirname "$0")/.." && pwd)"
out="${SOAK_OUT:-$here/soak_out}"; mkdir -p "$out"
s=$first
while [ "$s" -le "$last" ]; do
  for p in $props; do
    VERIF_SEED=$s VERIF_EVIDENCE_DIR="$out/ev" VERIF_REPLAY_DIR="$out/replays" "$here/check" $p --tier quick > "$out/$p-$s.log" 2>&1
    rc=$?
    tail -1 "$out/$p-$s.log" | sed "s/^/seed=$s rc=$rc /"
    if [ $rc -ne 0 ]; then echo "ALARM seed=$s prop=$p rc=$rc (see $out/$p-$s.log)"; else rm -f "$out/$p-$s.log"; fi
  done
  s=$((s+1))
done
