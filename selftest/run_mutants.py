#!/usr/bin/env python3
"""Sensitivity / no-false-alarm self-test.

  selftest/run_mutants.py seeded            every /verif/seeded/<id>/patch.diff   (must be caught)
  selftest/run_mutants.py mutants           every /verif/selftest/mutants/*.patch (must be caught)
  selftest/run_mutants.py benign            every /verif/selftest/benign/*.patch  (all six checks must stay green)
  selftest/run_mutants.py <patch> <PROP>    one patch against one check

Each patch is applied to a scratch git worktree of /repo's HEAD (outside /repo and /verif, removed
afterwards); checks run against it through VERIF_REPO with evidence and replay files redirected to a
scratch directory, so /verif/evidence is never touched.  A caught mutant must also *replay*: the
replay file written by the check is re-executed with --replay and must exit 1 again; and the same
replay against the unchanged tree must exit 0 (NOT-REPRODUCED).
"""
import glob
import json
import os
import shutil
import subprocess
import sys
import tempfile

HERE = os.path.dirname(os.path.dirname(os.path.abspath(__file__)))
REPO = "/repo"
ALL = ["C11", "C12", "C13", "C14", "C15", "C19"]


def sh(cmd, **kw):
    return subprocess.run(cmd, capture_output=True, text=True, **kw)


def scratch_base():
    return "/dev/shm" if os.path.isdir("/dev/shm") and os.access("/dev/shm", os.W_OK) else tempfile.gettempdir()


def with_patch(patch, fn):
    base = tempfile.mkdtemp(prefix="a816-mut-", dir=scratch_base())
    wt = os.path.join(base, "repo")
    try:
        r = sh(["git", "-C", REPO, "worktree", "add", "--detach", "-q", wt, "HEAD"])
        if r.returncode != 0:
            return {"error": "worktree: " + r.stderr[-200:]}
        r = sh(["git", "-C", wt, "apply", os.path.abspath(patch)])
        if r.returncode != 0:
            return {"error": "patch does not apply: " + r.stderr[-200:]}
        return fn(wt, base)
    finally:
        sh(["git", "-C", REPO, "worktree", "remove", "--force", wt])
        shutil.rmtree(base, ignore_errors=True)
        sh(["git", "-C", REPO, "worktree", "prune"])


def run_check(prop, wt, out, seed=None):
    env = dict(os.environ, VERIF_REPO=wt, VERIF_EVIDENCE_DIR=out, VERIF_REPLAY_DIR=out)
    env.setdefault("VERIF_MAX_REPORT", "1")  # one minimised violation with a replay file is what is checked here
    if seed is not None:
        env["VERIF_SEED"] = str(seed)
    r = sh([os.path.join(HERE, "check"), prop, "--tier", "quick"], env=env)
    replays = [l.split("replay=")[1].strip() for l in r.stdout.splitlines() if l.startswith("VIOLATION ")]
    classes = [l.split("class=")[1].strip() for l in r.stdout.splitlines() if l.startswith("seed=") and "class=" in l]
    return r.returncode, replays, classes, r.stdout[-600:] + r.stderr[-300:]


def evaluate_mutant(patch, prop, tests=True, demo=None):
    def fn(wt, base):
        res = {"patch": os.path.relpath(patch, HERE), "property": prop}
        if tests:
            t = sh(["/venv/bin/python", "-m", "pytest", "-q", "-p", "no:cacheprovider", "-x"], cwd=wt)
            res["tests_pass"] = t.returncode == 0
        if demo:
            d = os.path.join(base, "demo.py")
            with open(demo) as f, open(d, "w") as g:
                g.write(f.read().replace("REPO_DIR", wt))
            res["demo_exit_with_change"] = sh(["/venv/bin/python", d]).returncode
        out = os.path.join(base, "out")
        os.makedirs(out)
        rc, replays, classes, tail = run_check(prop, wt, out)
        res["check_exit"] = rc
        res["classes"] = sorted(set(classes))
        res["caught"] = rc == 1 and bool(replays)
        if replays:
            env = dict(os.environ, VERIF_REPO=wt, VERIF_EVIDENCE_DIR=out, VERIF_REPLAY_DIR=out)
            r1 = sh([os.path.join(HERE, "check"), prop, "--replay", replays[0]], env=env)
            r2 = sh([os.path.join(HERE, "check"), prop, "--replay", replays[0]], env=dict(os.environ, VERIF_EVIDENCE_DIR=out, VERIF_REPLAY_DIR=out))
            res["replay_reproduces_on_mutant"] = r1.returncode == 1
            res["replay_clean_on_unchanged_tree"] = r2.returncode == 0
        elif rc != 1:
            res["tail"] = tail
        return res

    return with_patch(patch, fn)


def evaluate_benign(patch):
    def fn(wt, base):
        res = {"patch": os.path.relpath(patch, HERE)}
        t = sh(["/venv/bin/python", "-m", "pytest", "-q", "-p", "no:cacheprovider", "-x"], cwd=wt)
        res["tests_pass"] = t.returncode == 0
        out = os.path.join(base, "out")
        os.makedirs(out)
        alarms = {}
        for prop in ALL:
            rc, replays, classes, tail = run_check(prop, wt, out)
            if rc != 0:
                alarms[prop] = {"exit": rc, "classes": classes, "tail": tail[-300:]}
        res["alarms"] = alarms
        res["green"] = not alarms
        return res

    return with_patch(patch, fn)


def main():
    args = sys.argv[1:]
    results = []
    ok = True
    shard = None
    if len(args) >= 2 and "/" in args[-1] and args[0] in ("seeded", "mutants", "benign"):
        i, n = args[-1].split("/")
        shard = (int(i), int(n))  # e.g. "seeded 0/2": every second entry, starting with the first
        args = args[:-1]

    def mine(items):
        return [x for k, x in enumerate(items) if shard is None or k % shard[1] == shard[0]]

    if args and args[0] == "seeded":
        for d in mine(sorted(glob.glob(os.path.join(HERE, "seeded", "*")))):
            meta = json.load(open(os.path.join(d, "meta.json")))
            r = evaluate_mutant(os.path.join(d, "patch.diff"), meta.get("verif", {}).get("check_property") or meta["property"], demo=os.path.join(d, "demo.py"))
            results.append(r)
            if meta.get("verif", {}).get("expected_not_caught"):
                r["expected_not_caught"] = True  # recorded as outside the claimed properties (see meta.json)
                ok &= not r.get("caught")
            else:
                ok &= bool(r.get("caught")) and r.get("replay_reproduces_on_mutant", False) and r.get("replay_clean_on_unchanged_tree", False)
            print(json.dumps(r), flush=True)
    elif args and args[0] == "mutants":
        for p in mine(sorted(glob.glob(os.path.join(HERE, "selftest", "mutants", "*.patch")))):
            prop = os.path.basename(p).split("-")[0]
            r = evaluate_mutant(p, prop)
            results.append(r)
            ok &= bool(r.get("caught")) and r.get("replay_reproduces_on_mutant", False)
            print(json.dumps(r), flush=True)
    elif args and args[0] == "benign":
        for p in mine(sorted(glob.glob(os.path.join(HERE, "selftest", "benign", "*.patch")))):
            r = evaluate_benign(p)
            results.append(r)
            ok &= bool(r.get("green"))
            print(json.dumps(r), flush=True)
    elif len(args) == 2:
        r = evaluate_mutant(args[0], args[1].upper())
        print(json.dumps(r, indent=1))
        ok = bool(r.get("caught"))
    else:
        print(__doc__)
        return 2
    if args and args[0] in ("seeded", "mutants", "benign"):
        suffix = "" if shard is None else f".{shard[0]}of{shard[1]}"
        with open(os.path.join(HERE, "selftest", f"last_{args[0]}{suffix}.json"), "w") as f:
            json.dump(results, f, indent=1)
    return 0 if ok else 1


if __name__ == "__main__":
    sys.exit(main())
