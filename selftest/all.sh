#!/bin/sh
# Runs every self-test of the machinery (takes 1-3 hours on 16 cores) and leaves the results in selftest/last_*.json / last_summary.txt
here="$(cd "$(dirname "$0")/.." && pwd)"
cd "$here" || exit 2
{
echo "== determinism"; python3 selftest/determinism.py; echo "exit=$?"
echo "== known-finding path"; selftest/known_finding_path.sh; echo "exit=$?"
echo "== planned mutants"; python3 selftest/run_mutants.py mutants > selftest/last_mutants.log 2>&1; echo "exit=$?"
echo "== benign refactors"; python3 selftest/run_mutants.py benign > selftest/last_benign.log 2>&1; echo "exit=$?"
echo "== seeded changes"; python3 selftest/run_mutants.py seeded > selftest/last_seeded.log 2>&1; echo "exit=$?"
python3 - <<'PY'
import json
for name in ("mutants", "benign", "seeded"):
    try:
        rs = json.load(open(f"selftest/last_{name}.json"))
    except Exception as e:
        print(name, "no results", e); continue
    if name == "benign":
        print(f"{name}: {sum(1 for r in rs if r.get('green'))}/{len(rs)} green")
        for r in rs:
            if not r.get("green"): print("   ALARM", r.get("patch"), r.get("alarms") or r.get("error"))
    else:
        ok = [r for r in rs if r.get("caught") and r.get("replay_reproduces_on_mutant")]
        print(f"{name}: {len(ok)}/{len(rs)} caught with a replay that reproduces")
        for r in rs:
            if r not in ok: print("   MISSED", r.get("patch"), r.get("error", ""), r.get("check_exit"))
PY
} 2>&1 | tee selftest/last_summary.txt
