#!/bin/sh
# Runs every self-test of the machinery (takes 2-3 hours on 16 cores) and leaves the results in selftest/last_*.json / last_summary.txt
here="$(cd "$(dirname "$0")/.." && pwd)"
cd "$here" || exit 2
{
echo "== determinism"; python3 selftest/determinism.py; echo "exit=$?"
echo "== known-finding path"; selftest/known_finding_path.sh; echo "exit=$?"
# two suites at a time (each check run uses all cores for part of its time only)
echo "== planned mutants + benign refactors (concurrently)"
python3 selftest/run_mutants.py mutants > selftest/last_mutants.log 2>&1 & pm=$!
python3 selftest/run_mutants.py benign > selftest/last_benign.log 2>&1 & pb=$!
wait $pm; echo "mutants exit=$?"; wait $pb; echo "benign exit=$?"
echo "== seeded changes (two shards concurrently)"
python3 selftest/run_mutants.py seeded 0/2 > selftest/last_seeded.0.log 2>&1 & p0=$!
python3 selftest/run_mutants.py seeded 1/2 > selftest/last_seeded.1.log 2>&1 & p1=$!
wait $p0; echo "seeded shard 0 exit=$?"; wait $p1; echo "seeded shard 1 exit=$?"
cat selftest/last_seeded.0.log selftest/last_seeded.1.log | sort > selftest/last_seeded.log; rm -f selftest/last_seeded.0.log selftest/last_seeded.1.log
python3 - <<'PY'
import json, os
rs = []
for k in (0, 1):
    p = f"selftest/last_seeded.{k}of2.json"
    rs += json.load(open(p)); os.unlink(p)
rs.sort(key=lambda r: r.get("patch", ""))
json.dump(rs, open("selftest/last_seeded.json", "w"), indent=1)
PY
python3 - <<'PY'
import json
for name in ("mutants", "benign", "seeded"):
    try:
        rs = json.load(open(f"selftest/last_{name}.json"))
    except Exception as e:
        print(name, "no results", e); continue
    if name == "benign":
        print(f"{name}: {sum(1 for r in rs if r.get('green'))}/{len(rs)} green")
        for r in rs:
            if not r.get("green"): print("   ALARM", r.get("patch"), r.get("alarms") or r.get("error"))
    else:
        ok = [r for r in rs if r.get("caught") and r.get("replay_reproduces_on_mutant")]
        print(f"{name}: {len(ok)}/{len(rs)} caught with a replay that reproduces")
        for r in rs:
            if r not in ok: print("   MISSED", r.get("patch"), r.get("error", ""), r.get("check_exit"))
PY
} 2>&1 | tee selftest/last_summary.txt
