#!/bin/sh
# Exercises the KNOWN-FINDING path of the driver on a scratch tree:
#  1. a tree with the C11 fix (a0d651b) reverted + a known-findings file listing exactly that finding
#     -> exit 0, KNOWN-FINDING lines, no VIOLATION line
#  2. the same tree with a second, unlisted defect (offset wrap) -> exit 1 + VIOLATION line
here="$(cd "$(dirname "$0")/.." && pwd)"
base=$(mktemp -d -p /dev/shm a816-kf-XXXX 2>/dev/null || mktemp -d)
wt=$base/repo
git -C /repo worktree add --detach -q "$wt" HEAD || exit 2
trap 'git -C /repo worktree remove --force "$wt"; rm -rf "$base"; git -C /repo worktree prune' EXIT
git -C /repo show a0d651b -- a816/writers.py | git -C "$wt" apply -R || exit 2
cat > $base/known.txt <<'K'
known: property=C11 class=malformed_file sig=record_offset_reads_as_EOF :: a record starting at offset 0x454F46 reads as the EOF marker (scratch tree of this self-test)
known: property=C11 class=image_mismatch sig=record_offset_reads_as_EOF :: a record starting at offset 0x454F46 reads as the EOF marker, later records dropped (scratch tree of this self-test)
K
export VERIF_REPO=$wt VERIF_EVIDENCE_DIR=$base/out VERIF_REPLAY_DIR=$base/out VERIF_KNOWN_FILE=$base/known.txt
"$here/check" C11 --tier quick > $base/log1 2>&1; rc1=$?
n1=$(grep -c '^KNOWN-FINDING: property=C11' $base/log1)
echo "step 1: exit=$rc1 known-finding lines=$n1 violation lines=$(grep -c '^VIOLATION' $base/log1)"
sed -i 's/struct.pack(">BH", block_address >> 16, block_address \& 0xFFFF)/struct.pack(">BH", (block_address >> 16) \& 0xFF, block_address \& 0xFFFF)/' "$wt/a816/writers.py"
"$here/check" C11 --tier quick > $base/log2 2>&1; rc2=$?
echo "step 2: exit=$rc2 violation lines=$(grep -c '^VIOLATION' $base/log2) known-finding lines=$(grep -c '^KNOWN-FINDING' $base/log2)"
[ $rc1 -eq 0 ] && [ "$n1" -ge 1 ] && [ $rc2 -eq 1 ] && echo PASS && exit 0
echo FAIL; tail -n 5 $base/log1; tail -n 5 $base/log2; exit 1
