#!/bin/sh
# Re-runs only the seeded-change suite (three shards at a time) and the benign refactors: used after a late,
# small change to the generators, when the full selftest/all.sh (2-3 hours) no longer fits.
here="$(cd "$(dirname "$0")/.." && pwd)"
cd "$here" || exit 2
{
python3 selftest/run_mutants.py seeded 0/3 > selftest/last_seeded.0.log 2>&1 & p0=$!
python3 selftest/run_mutants.py seeded 1/3 > selftest/last_seeded.1.log 2>&1 & p1=$!
python3 selftest/run_mutants.py seeded 2/3 > selftest/last_seeded.2.log 2>&1 & p2=$!
wait $p0; echo "seeded shard 0 exit=$?"; wait $p1; echo "seeded shard 1 exit=$?"; wait $p2; echo "seeded shard 2 exit=$?"
cat selftest/last_seeded.0.log selftest/last_seeded.1.log selftest/last_seeded.2.log | sort > selftest/last_seeded.log; rm -f selftest/last_seeded.?.log
python3 - <<'PY'
import json, os
rs = []
for k in (0, 1, 2):
    p = f"selftest/last_seeded.{k}of3.json"
    rs += json.load(open(p)); os.unlink(p)
rs.sort(key=lambda r: r.get("patch", ""))
json.dump(rs, open("selftest/last_seeded.json", "w"), indent=1)
def good(r):
    if r.get("expected_not_caught"):
        return not r.get("caught")
    return bool(r.get("caught") and r.get("replay_reproduces_on_mutant") and r.get("replay_clean_on_unchanged_tree"))
ok = [r for r in rs if good(r)]
print(f"seeded: {len(ok)}/{len(rs)} as expected (caught, replay reproduces on the changed tree and is clean on the unchanged tree; or recorded as outside the claimed properties)")
for r in rs:
    if not good(r): print("   NOT AS EXPECTED", r.get("patch"), r.get("error", ""), r.get("check_exit"), r.get("replay_reproduces_on_mutant"), r.get("replay_clean_on_unchanged_tree"))
PY
python3 selftest/run_mutants.py benign > selftest/last_benign.log 2>&1; echo "benign exit=$?"
} 2>&1 | tee selftest/last_seeded_again.txt
