#!/usr/bin/env python3
"""Determinism self-test: every quick-tier case of every check, run twice -
once with 16 workers under PYTHONHASHSEED=0 and once with 5 workers under
another PYTHONHASHSEED in a fresh interpreter - must give identical per-case
digests of event logs, outcomes, step counts and verdicts.

usage: selftest/determinism.py [PROP ...]
"""
import json, os, subprocess, sys, tempfile

HERE = os.path.dirname(os.path.dirname(os.path.abspath(__file__)))
props = [a.upper() for a in sys.argv[1:]] or ["C11", "C12", "C13", "C14", "C15", "C19"]
bad = 0
for p in props:
    with tempfile.TemporaryDirectory(prefix="a816-det-", dir="/dev/shm" if os.path.isdir("/dev/shm") else None) as d:
        outs = []
        for tag, jobs, hs in (("A", "16", "0"), ("B", "5", "4242")):
            env = dict(os.environ, VERIF_EVIDENCE_DIR=d, VERIF_REPLAY_DIR=d, VERIF_DIGESTS=os.path.join(d, tag + ".json"), PYTHONHASHSEED=hs)
            r = subprocess.run([os.path.join(HERE, "check"), p, "--tier", "quick", "--jobs", jobs], env=env, capture_output=True, text=True)
            if r.returncode not in (0, 1):
                print(p, tag, "HARNESS FAILURE", r.stderr[-400:])
                bad += 1
            outs.append(json.load(open(os.path.join(d, tag + ".json"))))
        a, b = outs
        both = sorted(set(a) & set(b))
        diff = [k for k in both if a[k] != b[k]]
        note = "" if len(both) == len(a) == len(b) else f" ({len(both)} cases ran in both: a wall-clock cap skipped the rest)"
        print(f"{p}: {len(a)} cases (16 workers, hashseed 0) vs {len(b)} cases (5 workers, hashseed 4242): {len(diff)} differing digests{note}")
        for k in diff[:5]:
            print("   ", k, a.get(k), b.get(k))
        bad += bool(diff)
sys.exit(1 if bad else 0)
